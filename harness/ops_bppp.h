/* ops_bppp.h: Bulletproofs++ generator lists (public API) and the internal norm argument
 * (secp256k1_bppp_commit / _rangeproof_norm_product_prove / _verify), bppp_util.h codecs and the
 * transcript challenge (C19).  See docs/PROTOCOL.md. */

#if defined(__SANITIZE_ADDRESS__)
extern size_t __sanitizer_get_current_allocated_bytes(void);   /* libasan */
static size_t bppp_heap(void) { return __sanitizer_get_current_allocated_bytes(); }
#else
static size_t bppp_heap(void) { return 0; }
#endif

static void bppp_out_sha(const unsigned char *p, size_t n) {
    secp256k1_sha256 h; unsigned char o[32];
    const secp256k1_hash_ctx *hc = secp256k1_get_hash_context(CTX);
    secp256k1_sha256_initialize(&h); secp256k1_sha256_write(hc, &h, p, n); secp256k1_sha256_finalize(hc, &h, o);
    out_hex(o, 32);
}
static void bppp_ser65(unsigned char *b, const secp256k1_ge *g) {
    secp256k1_ge t = *g;
    if (t.infinity) { memset(b, 0, 65); return; }
    secp256k1_fe_normalize_var(&t.x); secp256k1_fe_normalize_var(&t.y);
    b[0] = 4; secp256k1_fe_get_b32(b + 1, &t.x); secp256k1_fe_get_b32(b + 33, &t.y);
}
static int bppp_sep(int from) { int i; for (i = from; i < g_argc; i++) if (!strcmp(A(i)->s, "/")) return i; return -1; }
static int bppp_is_num(int i) { const char *s = A(i)->s; if (!*s) return 0; for (; *s; s++) if (*s < '0' || *s > '9') return 0; return 1; }

/* transcript token: <hex> = sha256_initialize + write ; t<hex> = tagged commitment midstate + write */
static int bppp_tok_transcript(int i, secp256k1_sha256 *t) {
    const secp256k1_hash_ctx *hc = secp256k1_get_hash_context(CTX);
    const char *s = A(i)->s;
    if (s[0] == 't') {
        size_t l = strlen(s + 1), k; unsigned char *b;
        secp256k1_bppp_sha256_tagged_commitment_init(t);
        if (!strcmp(s + 1, "-")) return 1;
        if (l % 2) return 0;
        b = (unsigned char*)malloc(l / 2 + 1);
        for (k = 0; k < l / 2; k++) { int x = hexval(s[1 + 2*k]), y = hexval(s[2 + 2*k]); if (x < 0 || y < 0) { free(b); return 0; } b[k] = (unsigned char)(x * 16 + y); }
        secp256k1_sha256_write(hc, t, b, l / 2);
        free(b);
        return 1;
    }
    if (!A(i)->is_hex) return 0;
    secp256k1_sha256_initialize(t);
    secp256k1_sha256_write(hc, t, A(i)->b, A(i)->n);
    return 1;
}
/* scratch token: `_` = NULL, else a size; returns 0 on error */
static int bppp_tok_scratch(int i, secp256k1_scratch_space **scr) {
    *scr = NULL;
    if (A(i)->is_null) return 1;
    if (!bppp_is_num(i)) return 0;
    *scr = secp256k1_scratch_space_create(CTX, (size_t)strtoull(A(i)->s, NULL, 10));
    return *scr != NULL;
}
/* scalars in args [from, to) -> fresh array (always allocated) */
static secp256k1_scalar *bppp_scalars(int from, int to) {
    int i; secp256k1_scalar *v = (secp256k1_scalar*)malloc((size_t)(to - from) * sizeof *v + 1);
    for (i = from; i < to; i++) {
        if (!A(i)->is_hex || A(i)->n != 32) { free(v); return NULL; }
        secp256k1_scalar_set_b32(&v[i - from], A(i)->b, NULL);
    }
    return v;
}
static size_t bppp_rounds(size_t g_len, size_t h_len) {
    size_t a = secp256k1_bppp_log2(g_len), b = secp256k1_bppp_log2(h_len);
    return a > b ? a : b;
}

/* bppp_gens_create n */
static int op_bppp_gens_create(void) {
    secp256k1_bppp_generators *gs; size_t n, i; unsigned char *all;
    NEED(1); if (!bppp_is_num(0)) return -1;
    n = (size_t)strtoull(A(0)->s, NULL, 10);
    gs = secp256k1_bppp_generators_create(CTX, n);
    if (gs == NULL) { out_int(0); return 1; }
    out_int(1); out_int((long long)gs->n);
    all = (unsigned char*)malloc(65 * gs->n + 1);
    for (i = 0; i < gs->n; i++) { bppp_ser65(all + 65 * i, &gs->gens[i]); if (i < 2) out_ge(&gs->gens[i]); }
    bppp_out_sha(all, 65 * gs->n);
    free(all);
    secp256k1_bppp_generators_destroy(CTX, gs);
    return 1;
}
/* bppp_gens_prefix n k */
static int op_bppp_gens_prefix(void) {
    secp256k1_bppp_generators *a, *b; size_t n, k, i; int same = 1;
    NEED(2); if (!bppp_is_num(0) || !bppp_is_num(1)) return -1;
    n = (size_t)strtoull(A(0)->s, NULL, 10); k = (size_t)strtoull(A(1)->s, NULL, 10);
    a = secp256k1_bppp_generators_create(CTX, n);
    b = secp256k1_bppp_generators_create(CTX, n + k);
    if (a == NULL || b == NULL || a->n != n || b->n != n + k) same = 0;
    else for (i = 0; i < n; i++) {
        unsigned char x[65], y[65]; bppp_ser65(x, &a->gens[i]); bppp_ser65(y, &b->gens[i]);
        if (memcmp(x, y, 65) != 0) same = 0;
    }
    secp256k1_bppp_generators_destroy(CTX, a);
    secp256k1_bppp_generators_destroy(CTX, b);
    secp256k1_bppp_generators_destroy(CTX, NULL);   /* documented no-op */
    out_int(same);
    return 1;
}
/* bppp_gens_parse <hex|_> : the heap is measured before parse and after parse (+ destroy on success);
 * our own re-serialization buffer is allocated before the first measurement */
static int op_bppp_gens_parse(void) {
    secp256k1_bppp_generators *gs; size_t h0, h1, n = 0, len = 0; unsigned char *ser; int sret = 0, eq = 0;
    NEED(1); if (!A(0)->is_null && !A(0)->is_hex) return -1;
    ser = (unsigned char*)malloc(A(0)->n + 1); memset(ser, 0xAA, A(0)->n + 1);
    h0 = bppp_heap();
    gs = secp256k1_bppp_generators_parse(CTX, OPT(0), A(0)->n);
    if (gs == NULL) {
        h1 = bppp_heap();
        out_int(0);
    } else {
        n = gs->n; len = 33 * n;
        if (len > A(0)->n) { free(ser); secp256k1_bppp_generators_destroy(CTX, gs); return -1; }
        sret = secp256k1_bppp_generators_serialize(CTX, gs, ser, &len);
        secp256k1_bppp_generators_destroy(CTX, gs);
        h1 = bppp_heap();
        eq = sret && len == A(0)->n && memcmp(ser, A(0)->b, len) == 0;
        out_int(sret); out_int((long long)n); bppp_out_sha(ser, sret ? len : 0); out_int(eq);
    }
    free(ser);
    { char b[40]; snprintf(b, sizeof b, "L%lld", (long long)h1 - (long long)h0); out_str(b); }
    out_ill();
    return 1;
}
/* bppp_gens_serialize <n|_> <buflen|_> */
static int op_bppp_gens_serialize(void) {
    secp256k1_bppp_generators *gs = NULL; size_t n = 0, buflen = 0, len; unsigned char *buf = NULL; int ret;
    NEED(2);
    if (!A(0)->is_null) { if (!bppp_is_num(0)) return -1; n = (size_t)strtoull(A(0)->s, NULL, 10); gs = secp256k1_bppp_generators_create(CTX, n); if (!gs) return -1; }
    if (!A(1)->is_null) {
        if (!bppp_is_num(1)) { secp256k1_bppp_generators_destroy(CTX, gs); return -1; }
        buflen = (size_t)strtoull(A(1)->s, NULL, 10);
        buf = (unsigned char*)malloc(buflen ? buflen : 1); memset(buf, 0xAA, buflen ? buflen : 1);
        len = buflen;
    } else len = 33 * n;
    ret = secp256k1_bppp_generators_serialize(CTX, gs, buf, &len);
    out_int(ret); out_int((long long)len); bppp_out_sha(buf, buf ? buflen : 0); out_ill();
    free(buf);
    secp256k1_bppp_generators_destroy(CTX, gs);
    return 1;
}

/* bppp_commit <scratch|_> <rho32> / n_vec / l_vec / c_vec / <gens count> */
static int op_bppp_commit(void) {
    int s1, s2, s3, s4; size_t nl, ll, cl, cnt; secp256k1_scalar *nv = NULL, *lv = NULL, *cv = NULL, rho, mu;
    secp256k1_scratch_space *scr = NULL; secp256k1_bppp_generators *gs = NULL; secp256k1_ge commit; int ret, rc = -1;
    if (g_argc < 7 || strcmp(A(2)->s, "/")) return -1;
    NEEDHEX(1, 32);
    s1 = 2; s2 = bppp_sep(s1 + 1); if (s2 < 0) return -1; s3 = bppp_sep(s2 + 1); if (s3 < 0) return -1;
    s4 = bppp_sep(s3 + 1); if (s4 < 0 || s4 + 2 != g_argc || !bppp_is_num(s4 + 1)) return -1;
    nl = (size_t)(s2 - s1 - 1); ll = (size_t)(s3 - s2 - 1); cl = (size_t)(s4 - s3 - 1);
    cnt = (size_t)strtoull(A(s4 + 1)->s, NULL, 10);
    if (ll != cl || cnt < nl + ll || !secp256k1_is_power_of_two(nl) || !secp256k1_is_power_of_two(ll)) return -1;
    nv = bppp_scalars(s1 + 1, s2); lv = bppp_scalars(s2 + 1, s3); cv = bppp_scalars(s3 + 1, s4);
    if (!nv || !lv || !cv) goto done;
    if (!bppp_tok_scratch(0, &scr)) goto done;
    secp256k1_scalar_set_b32(&rho, A(1)->b, NULL);
    secp256k1_scalar_sqr(&mu, &rho);
#ifdef VERIFY
    cnt = nl + ll;   /* VERIFY_CHECK(g_vec->n == n_vec_len + l_vec_len); lists are prefix consistent */
#endif
    gs = secp256k1_bppp_generators_create(CTX, cnt);
    if (!gs) goto done;
    secp256k1_ge_set_infinity(&commit);
    ret = secp256k1_bppp_commit(CTX, scr, &commit, gs, nv, nl, lv, ll, cv, cl, &mu);
    out_int(ret); if (ret) out_ge(&commit); else out_str("Z");
    rc = 1;
done:
    free(nv); free(lv); free(cv);
    if (scr) secp256k1_scratch_space_destroy(CTX, scr);
    secp256k1_bppp_generators_destroy(CTX, gs);
    return rc;
}

/* bppp_prove <scratch|_> <transcript> <rho32> / n_vec / l_vec / c_vec */
static int op_bppp_prove(void) {
    int s1, s2, s3; size_t nl, ll, cl, rounds, plen, alloc_plen; secp256k1_scalar *nv = NULL, *lv = NULL, *cv = NULL, *cv0 = NULL, rho, mu;
    secp256k1_scratch_space *scr = NULL; secp256k1_bppp_generators *gs = NULL; secp256k1_ge commit, *gv = NULL;
    secp256k1_sha256 tr, tr2; unsigned char *proof = NULL; int ret, vret, rc = -1;
    if (g_argc < 6 || strcmp(A(3)->s, "/")) return -1;
    NEEDHEX(2, 32);
    s1 = 3; s2 = bppp_sep(s1 + 1); if (s2 < 0) return -1; s3 = bppp_sep(s2 + 1); if (s3 < 0) return -1;
    nl = (size_t)(s2 - s1 - 1); ll = (size_t)(s3 - s2 - 1); cl = (size_t)(g_argc - s3 - 1);
    if (ll != cl || !secp256k1_is_power_of_two(nl) || !secp256k1_is_power_of_two(ll)) return -1;
    if (!bppp_tok_transcript(1, &tr)) return -1;
    tr2 = tr;
    nv = bppp_scalars(s1 + 1, s2); lv = bppp_scalars(s2 + 1, s3); cv = bppp_scalars(s3 + 1, g_argc); cv0 = bppp_scalars(s3 + 1, g_argc);
    if (!nv || !lv || !cv || !cv0) goto done;
    if (!bppp_tok_scratch(0, &scr)) goto done;
    secp256k1_scalar_set_b32(&rho, A(2)->b, NULL);
    secp256k1_scalar_sqr(&mu, &rho);
    gs = secp256k1_bppp_generators_create(CTX, nl + ll);
    if (!gs) goto done;
    if (!secp256k1_bppp_commit(CTX, g_scratch_big, &commit, gs, nv, nl, lv, ll, cv, cl, &mu)) { out_int(0); out_str("commit-failed"); rc = 1; goto done; }
    /* the prover overwrites its inputs: work on copies, exact-size output buffer */
    gv = (secp256k1_ge*)malloc((nl + ll) * sizeof *gv);
    memcpy(gv, gs->gens, (nl + ll) * sizeof *gv);
    rounds = bppp_rounds(nl, ll);
    alloc_plen = 65 * rounds + 64; plen = alloc_plen;
    proof = (unsigned char*)malloc(alloc_plen); memset(proof, 0xAA, alloc_plen);
    ret = secp256k1_bppp_rangeproof_norm_product_prove(CTX, scr, proof, &plen, &tr, &rho, gv, nl + ll, nv, nl, lv, ll, cv, cl);
    out_int(ret);
    if (!ret) { out_int(0); out_str("-"); out_ge(&commit); out_int(0); rc = 1; goto done; }
    out_int((long long)plen); out_hex(proof, plen <= alloc_plen ? plen : alloc_plen); out_ge(&commit);
    vret = secp256k1_bppp_rangeproof_norm_product_verify(CTX, g_scratch_big, proof, plen, &tr2, &rho, gs, nl, cv0, cl, &commit);
    out_int(vret);
    rc = 1;
done:
    free(nv); free(lv); free(cv); free(cv0); free(gv); free(proof);
    if (scr) secp256k1_scratch_space_destroy(CTX, scr);
    secp256k1_bppp_generators_destroy(CTX, gs);
    return rc;
}

/* bppp_verify <scratch|_> <transcript> <rho32> <gens_n> <g_len> <commit> / c_vec / <proof> */
static int op_bppp_verify(void) {
    int s1, s2; size_t cl, gens_n, g_len; secp256k1_scalar *cv = NULL, rho; secp256k1_scratch_space *scr = NULL;
    secp256k1_bppp_generators *gs = NULL; secp256k1_ge commit; secp256k1_sha256 tr; int ret, rc = -1;
    if (g_argc < 9 || strcmp(A(6)->s, "/")) return -1;
    NEEDHEX(2, 32);
    if (!bppp_is_num(3) || !bppp_is_num(4) || !tok_ge(5, &commit)) return -1;
    s1 = 6; s2 = bppp_sep(s1 + 1); if (s2 < 0 || s2 + 2 != g_argc) return -1;
    NEEDANYHEX(s2 + 1);
    cl = (size_t)(s2 - s1 - 1);
    gens_n = (size_t)strtoull(A(3)->s, NULL, 10); g_len = (size_t)strtoull(A(4)->s, NULL, 10);
    if (!bppp_tok_transcript(1, &tr)) return -1;
    cv = bppp_scalars(s1 + 1, s2);
    if (!cv) goto done;
    if (!bppp_tok_scratch(0, &scr)) goto done;
    secp256k1_scalar_set_b32(&rho, A(2)->b, NULL);
    gs = secp256k1_bppp_generators_create(CTX, gens_n);
    if (!gs) goto done;
    ret = secp256k1_bppp_rangeproof_norm_product_verify(CTX, scr, A(s2 + 1)->b, A(s2 + 1)->n, &tr, &rho, gs, g_len, cv, cl, &commit);
    out_int(ret);
    { char b[40]; snprintf(b, sizeof b, "a%lld", scr ? (long long)scr->alloc_size : 0LL); out_str(b); }
    rc = 1;
done:
    free(cv);
    if (scr) secp256k1_scratch_space_destroy(CTX, scr);
    secp256k1_bppp_generators_destroy(CTX, gs);
    return rc;
}

/* bppp_challenge <transcript> <idx> */
static int op_bppp_challenge(void) {
    secp256k1_sha256 tr; secp256k1_scalar ch;
    NEED(2); if (!bppp_is_num(1) || !bppp_tok_transcript(0, &tr)) return -1;
    secp256k1_bppp_challenge_scalar(secp256k1_get_hash_context(CTX), &ch, &tr, (uint64_t)strtoull(A(1)->s, NULL, 10));
    out_scalar(&ch);
    return 1;
}
/* bppp_points_ser P Q */
static int op_bppp_points_ser(void) {
    secp256k1_ge p, q; unsigned char out[65];
    NEED(2); if (!tok_ge(0, &p) || !tok_ge(1, &q)) return -1;
    secp256k1_bppp_serialize_points(out, &p, &q);
    out_hex(out, 65);
    return 1;
}
/* bppp_points_parse <65 bytes> */
static int op_bppp_points_parse(void) {
    int idx;
    NEED(1); NEEDHEX(0, 65);
    for (idx = 0; idx < 2; idx++) {
        secp256k1_ge p; int r;
        secp256k1_ge_set_infinity(&p);
        r = secp256k1_bppp_parse_one_of_points(&p, A(0)->b, idx);
        out_int(r); if (r) out_ge(&p); else out_str("Z");
    }
    return 1;
}
/* bppp_log2 n */
static int op_bppp_log2(void) {
    size_t n;
    NEED(1); if (!bppp_is_num(0)) return -1;
    n = (size_t)strtoull(A(0)->s, NULL, 10);
    if (n == 0) out_str("-"); else out_int((long long)secp256k1_bppp_log2(n));
    out_int(secp256k1_is_power_of_two(n));
    return 1;
}
/* bppp_ip <mu32|_> a_off b_off step len / a_vec / b_vec */
static int op_bppp_ip(void) {
    int s1, s2; size_t ao, bo, st, len, al, bl; secp256k1_scalar *a, *b, mu, res;
    if (g_argc < 7 || strcmp(A(5)->s, "/")) return -1;
    NEEDOPT(0, 32);
    if (!bppp_is_num(1) || !bppp_is_num(2) || !bppp_is_num(3) || !bppp_is_num(4)) return -1;
    ao = (size_t)strtoull(A(1)->s, NULL, 10); bo = (size_t)strtoull(A(2)->s, NULL, 10);
    st = (size_t)strtoull(A(3)->s, NULL, 10); len = (size_t)strtoull(A(4)->s, NULL, 10);
    s1 = 5; s2 = bppp_sep(s1 + 1); if (s2 < 0) return -1;
    al = (size_t)(s2 - s1 - 1); bl = (size_t)(g_argc - s2 - 1);
    if (len > 0 && (ao + st * (len - 1) >= al || bo + st * (len - 1) >= bl)) return -1;
    a = bppp_scalars(s1 + 1, s2); b = bppp_scalars(s2 + 1, g_argc);
    if (!a || !b) { free(a); free(b); return -1; }
    if (A(0)->is_null) secp256k1_scalar_inner_product(&res, a, ao, b, bo, st, len);
    else { secp256k1_scalar_set_b32(&mu, A(0)->b, NULL); secp256k1_weighted_scalar_inner_product(&res, a, ao, b, bo, st, len, &mu); }
    out_scalar(&res);
    free(a); free(b);
    return 1;
}

static int ops_bppp(const char *op) {
#define OP(name, call) if (!strcmp(op, name)) return call;
    OP("bppp_gens_create", op_bppp_gens_create()) OP("bppp_gens_prefix", op_bppp_gens_prefix())
    OP("bppp_gens_parse", op_bppp_gens_parse()) OP("bppp_gens_serialize", op_bppp_gens_serialize())
    OP("bppp_commit", op_bppp_commit()) OP("bppp_prove", op_bppp_prove()) OP("bppp_verify", op_bppp_verify())
    OP("bppp_challenge", op_bppp_challenge()) OP("bppp_points_ser", op_bppp_points_ser())
    OP("bppp_points_parse", op_bppp_points_parse()) OP("bppp_log2", op_bppp_log2()) OP("bppp_ip", op_bppp_ip())
#undef OP
    return 0;
}
