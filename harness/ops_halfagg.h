/* ops_halfagg.h: Schnorr half-aggregation (C17). x-only keys are point tokens (`Z` = all-zero object);
 * empty key / message / signature lists are passed as NULL pointers. */

/* parse `cnt` groups of (pk msg32 [sig64]) starting at argument `from` */
static int ha_groups(int from, size_t cnt, int with_sig, secp256k1_xonly_pubkey **pks, unsigned char **msgs, unsigned char **sigs) {
    size_t i; int w = with_sig ? 3 : 2;
    *pks = NULL; *msgs = NULL; if (sigs) *sigs = NULL;
    if (cnt == 0) return 1;
    *pks = (secp256k1_xonly_pubkey*)malloc(cnt * sizeof **pks); *msgs = (unsigned char*)malloc(cnt * 32);
    if (with_sig) *sigs = (unsigned char*)malloc(cnt * 64);
    for (i = 0; i < cnt; i++) {
        int a = from + w * (int)i;
        if (!tok_pubkey(a, (secp256k1_pubkey*)&(*pks)[i]) || !A(a+1)->is_hex || A(a+1)->n != 32 ||
            (with_sig && (!A(a+2)->is_hex || A(a+2)->n != 64))) { free(*pks); free(*msgs); if (with_sig) free(*sigs); return 0; }
        memcpy(*msgs + 32 * i, A(a+1)->b, 32);
        if (with_sig) memcpy(*sigs + 64 * i, A(a+2)->b, 64);
    }
    return 1;
}
/* buffer of `buflen` bytes holding the first bytes of pre ‖ AA.. */
static unsigned char *ha_buf(size_t buflen, const unsigned char *pre, size_t prelen) {
    unsigned char *b = (unsigned char*)malloc(buflen ? buflen : 1);
    memset(b, 0xAA, buflen ? buflen : 1);
    if (prelen > buflen) prelen = buflen;
    if (prelen) memcpy(b, pre, prelen);
    return b;
}
/* ha_aggregate buflen / (pk msg32 sig64)* -> ret buffer len i<n> */
static int op_ha_aggregate(void) {
    size_t buflen, len, n; secp256k1_xonly_pubkey *pks; unsigned char *msgs, *sigs, *buf; int ret;
    if (g_argc < 2 || strcmp(A(1)->s, "/") || (g_argc - 2) % 3) return -1;
    buflen = (size_t)strtoull(A(0)->s, NULL, 10); if (buflen > 1000000) return -1;
    n = (size_t)(g_argc - 2) / 3;
    if (!ha_groups(2, n, 1, &pks, &msgs, &sigs)) return -1;
    buf = ha_buf(buflen, NULL, 0); len = buflen;
    ret = secp256k1_schnorrsig_aggregate(CTX, buf, &len, pks, msgs, sigs, n);
    out_int(ret); out_hex(buf, buflen); out_int((long long)len); out_ill();
    free(buf); free(pks); free(msgs); free(sigs);
    return 1;
}
/* ha_inc_aggregate buflen n_before aggsig_in / (pk msg32)* / sig64* -> ret buffer len i<n> */
static int op_ha_inc_aggregate(void) {
    size_t buflen, len, np, nnew, nbefore, tot, i; int s2, ret, early; secp256k1_xonly_pubkey *pks; unsigned char *msgs, *sigs = NULL, *buf;
    if (g_argc < 5 || strcmp(A(3)->s, "/")) return -1;
    NEEDANYHEX(2);
    buflen = (size_t)strtoull(A(0)->s, NULL, 10); if (buflen > 1000000) return -1;
    if (strlen(A(1)->s) > 20 || (strlen(A(1)->s) == 20 && strcmp(A(1)->s, "18446744073709551615") > 0)) return -1;
    nbefore = (size_t)strtoull(A(1)->s, NULL, 10);
    s2 = find_sep(4); if (s2 < 0 || (s2 - 4) % 2) return -1;
    np = (size_t)(s2 - 4) / 2; nnew = (size_t)(g_argc - s2 - 1);
    tot = nbefore + nnew;
    early = tot < nbefore || (np == 0 && tot != 0) || buflen / 32 == 0 || buflen / 32 - 1 < tot;
    if (!early && np < tot) return -1;
    for (i = 0; i < nnew; i++) if (!A(s2 + 1 + (int)i)->is_hex || A(s2 + 1 + (int)i)->n != 64) return -1;
    if (!ha_groups(4, np, 0, &pks, &msgs, NULL)) return -1;
    if (nnew) { sigs = (unsigned char*)malloc(nnew * 64); for (i = 0; i < nnew; i++) memcpy(sigs + 64 * i, A(s2 + 1 + (int)i)->b, 64); }
    buf = ha_buf(buflen, A(2)->b, A(2)->n); len = buflen;
    ret = secp256k1_schnorrsig_inc_aggregate(CTX, buf, &len, pks, msgs, sigs, nbefore, nnew);
    out_int(ret); out_hex(buf, buflen); out_int((long long)len); out_ill();
    free(buf); free(pks); free(msgs); free(sigs);
    return 1;
}
/* ha_aggverify aggsig / (pk msg32)* -> ret i<n> ; aggsig `_` = NULL */
static int op_ha_aggverify(void) {
    size_t n; secp256k1_xonly_pubkey *pks; unsigned char *msgs;
    if (g_argc < 2 || strcmp(A(1)->s, "/") || (g_argc - 2) % 2) return -1;
    if (!A(0)->is_null && !A(0)->is_hex) return -1;
    n = (size_t)(g_argc - 2) / 2;
    if (!ha_groups(2, n, 0, &pks, &msgs, NULL)) return -1;
    out_int(secp256k1_schnorrsig_aggverify(CTX, pks, msgs, n, OPT(0), A(0)->n)); out_ill();
    free(pks); free(msgs);
    return 1;
}
static int ops_halfagg(const char *op) {
#define OP(name, call) if (!strcmp(op, name)) return call;
    OP("ha_aggregate", op_ha_aggregate()) OP("ha_inc_aggregate", op_ha_inc_aggregate()) OP("ha_aggverify", op_ha_aggverify())
#undef OP
    return 0;
}
