/* ops_s2c.h: ECDSA sign-to-contract and the anti-exfil protocol (C15). */

/* opening object <-> point token ("Z" = all-zero object) */
static int tok_opening(int i, secp256k1_ecdsa_s2c_opening *o) {
    secp256k1_pubkey pk;
    if (!tok_pubkey(i, &pk)) return 0;
    memcpy(o->data, pk.data, 64);
    return 1;
}
static void out_opening(const secp256k1_ecdsa_s2c_opening *o) {
    secp256k1_pubkey pk; memcpy(pk.data, o->data, 64); out_pubkey(&pk);
}

/* s2c_sign msg32 sk32 data32 -> ret sig64 opening i<n> [verify_commit ecdsa_verify] */
static int op_s2c_sign(void) {
    secp256k1_ecdsa_signature sig, sig2; secp256k1_ecdsa_s2c_opening op; secp256k1_pubkey pk; int ret, r2, ill;
    NEED(3); NEEDHEX(0, 32); NEEDHEX(1, 32); NEEDHEX(2, 32);
    memset(&sig, 0xAA, sizeof sig); memset(&op, 0, sizeof op);
    ret = secp256k1_ecdsa_s2c_sign(CTX, &sig, &op, A(0)->b, A(1)->b, A(2)->b);
    out_int(ret); out_sig(&sig); out_opening(&op); out_ill();
    if (!ret && !all_zero(&sig, sizeof sig)) out_str("NOT-ZEROED");
    ill = g_illegal;
    if (ret == 1) {
        int ev = 0;
        out_int(secp256k1_ecdsa_s2c_verify_commit(CTX, &sig, A(2)->b, &op));
        if (secp256k1_ec_pubkey_create(CTX, &pk, A(1)->b)) ev = secp256k1_ecdsa_verify(CTX, &sig, A(0)->b, &pk);
        out_int(ev);
    }
    /* the NULL-opening form (secp256k1_anti_exfil_sign) must give the same signature */
    memset(&sig2, 0xAA, sizeof sig2);
    r2 = secp256k1_anti_exfil_sign(CTX, &sig2, A(0)->b, A(1)->b, A(2)->b);
    if (r2 != ret || memcmp(&sig, &sig2, sizeof sig)) out_str("AE-SIGN-MISMATCH");
    g_illegal = ill;
    return 1;
}
static int op_s2c_verify_commit(void) {
    secp256k1_ecdsa_signature sig; secp256k1_ecdsa_s2c_opening op;
    NEED(3); NEEDHEX(1, 32);
    if (!tok_sig(0, &sig) || !tok_opening(2, &op)) return -1;
    out_int(secp256k1_ecdsa_s2c_verify_commit(CTX, &sig, A(1)->b, &op)); out_ill();
    return 1;
}
static int op_s2c_opening_parse(void) {
    secp256k1_ecdsa_s2c_opening op; int ret;
    NEED(1); NEEDHEX(0, 33);
    /* pre-filled with a valid object (G) so that "left untouched" would be visible */
    { secp256k1_ge g = secp256k1_ge_const_g; secp256k1_ecdsa_s2c_opening_save(&op, &g); }
    ret = secp256k1_ecdsa_s2c_opening_parse(CTX, &op, A(0)->b);
    out_int(ret); out_opening(&op);
    return 1;
}
static int op_s2c_opening_serialize(void) {
    secp256k1_ecdsa_s2c_opening op; unsigned char *out; int ret;
    NEED(1);
    if (!tok_opening(0, &op)) return -1;
    out = (unsigned char*)malloc(33); memset(out, 0xAA, 33);
    ret = secp256k1_ecdsa_s2c_opening_serialize(CTX, out, &op);
    out_int(ret); out_hex(out, 33); out_ill();
    free(out);
    return 1;
}
static int op_ae_host_commit(void) {
    unsigned char c[32]; int ret;
    NEED(1); NEEDHEX(0, 32);
    memset(c, 0xAA, 32);
    ret = secp256k1_ecdsa_anti_exfil_host_commit(CTX, c, A(0)->b);
    out_int(ret); out_hex(c, 32);
    return 1;
}
static int op_ae_signer_commit(void) {
    secp256k1_ecdsa_s2c_opening op; int ret;
    NEED(3); NEEDHEX(0, 32); NEEDHEX(1, 32); NEEDHEX(2, 32);
    memset(&op, 0, sizeof op);
    ret = secp256k1_ecdsa_anti_exfil_signer_commit(CTX, &op, A(0)->b, A(1)->b, A(2)->b);
    out_int(ret); out_opening(&op);
    return 1;
}
static int op_ae_sign(void) {
    secp256k1_ecdsa_signature sig; int ret;
    NEED(3); NEEDHEX(0, 32); NEEDHEX(1, 32); NEEDHEX(2, 32);
    memset(&sig, 0xAA, sizeof sig);
    ret = secp256k1_anti_exfil_sign(CTX, &sig, A(0)->b, A(1)->b, A(2)->b);
    out_int(ret); out_sig(&sig);
    if (!ret && !all_zero(&sig, sizeof sig)) out_str("NOT-ZEROED");
    return 1;
}
/* ae_host_verify sig64 msg32 pubkey host_data32 opening -> ret i<n> verify_commit ecdsa_verify */
static int op_ae_host_verify(void) {
    secp256k1_ecdsa_signature sig; secp256k1_pubkey pk; secp256k1_ecdsa_s2c_opening op; int ill;
    NEED(5); NEEDHEX(1, 32); NEEDHEX(3, 32);
    if (!tok_sig(0, &sig) || !tok_pubkey(2, &pk) || !tok_opening(4, &op)) return -1;
    out_int(secp256k1_anti_exfil_host_verify(CTX, &sig, A(1)->b, &pk, A(3)->b, &op)); out_ill();
    ill = g_illegal;
    out_int(secp256k1_ecdsa_s2c_verify_commit(CTX, &sig, A(3)->b, &op));
    out_int(secp256k1_ecdsa_verify(CTX, &sig, A(1)->b, &pk));
    g_illegal = ill;
    return 1;
}
/* ae_protocol msg32 sk32 rand32 ->
 *   1 commitment  sc_ret opening  sign_ret sig64  hv_ret i<n>  s2c_sign-opening  openings-equal  sigs-equal */
static int op_ae_protocol(void) {
    unsigned char c[32], o1[33], o2[33]; secp256k1_ecdsa_s2c_opening op, op2; secp256k1_ecdsa_signature sig, sig2; secp256k1_pubkey pk;
    int r, hv = 0, r2, same, ill0, ill1;
    NEED(3); NEEDHEX(0, 32); NEEDHEX(1, 32); NEEDHEX(2, 32);
    memset(&op, 0, sizeof op); memset(&op2, 0, sizeof op2);
    r = secp256k1_ecdsa_anti_exfil_host_commit(CTX, c, A(2)->b);
    out_int(r); out_hex(c, 32);
    r = secp256k1_ecdsa_anti_exfil_signer_commit(CTX, &op, A(0)->b, A(1)->b, c);
    out_int(r); out_opening(&op);
    r = secp256k1_anti_exfil_sign(CTX, &sig, A(0)->b, A(1)->b, A(2)->b);
    out_int(r); out_sig(&sig);
    ill0 = g_illegal;
    if (secp256k1_ec_pubkey_create(CTX, &pk, A(1)->b)) hv = secp256k1_anti_exfil_host_verify(CTX, &sig, A(0)->b, &pk, A(2)->b, &op);
    ill1 = g_illegal - ill0;
    { char b[32]; out_int(hv); snprintf(b, sizeof b, "i%d", ill1); out_str(b); }
    r2 = secp256k1_ecdsa_s2c_sign(CTX, &sig2, &op2, A(0)->b, A(1)->b, A(2)->b);
    out_opening(&op2);
    same = 0;
    if (!all_zero(&op, sizeof op) && !all_zero(&op2, sizeof op2)) {
        int a = secp256k1_ecdsa_s2c_opening_serialize(CTX, o1, &op), b = secp256k1_ecdsa_s2c_opening_serialize(CTX, o2, &op2);
        same = a && b && memcmp(o1, o2, 33) == 0;
    }
    out_int(same);
    out_int(r2 == r && memcmp(&sig, &sig2, sizeof sig) == 0);
    g_illegal = ill0;
    return 1;
}

static int ops_s2c(const char *op) {
#define OP(name, call) if (!strcmp(op, name)) return call;
    OP("s2c_sign", op_s2c_sign()) OP("s2c_verify_commit", op_s2c_verify_commit())
    OP("s2c_opening_parse", op_s2c_opening_parse()) OP("s2c_opening_serialize", op_s2c_opening_serialize())
    OP("ae_host_commit", op_ae_host_commit()) OP("ae_signer_commit", op_ae_signer_commit()) OP("ae_sign", op_ae_sign())
    OP("ae_host_verify", op_ae_host_verify()) OP("ae_protocol", op_ae_protocol())
#undef OP
    return 0;
}
