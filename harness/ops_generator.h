/* ops_generator.h: generator / Pedersen API (C08), internal Borromean sign/verify */

static int tok_generator(int i, secp256k1_generator *g) {
    secp256k1_ge ge;
    if (!tok_ge(i, &ge) || ge.infinity) return 0;
    secp256k1_generator_save(g, &ge);
    return 1;
}
static void out_generator(const secp256k1_generator *g) {
    secp256k1_ge ge;
    if (all_zero(g, sizeof *g)) { out_str("Z"); return; }
    secp256k1_generator_load(&ge, g); out_ge(&ge);
}
static int find_sep(int from) { int i; for (i = from; i < g_argc; i++) if (!strcmp(A(i)->s, "/")) return i; return -1; }

static int op_generator_parse(void) {
    secp256k1_generator g; int ret;
    NEED(1); NEEDHEX(0, 33);
    memset(&g, 0, sizeof g);
    ret = secp256k1_generator_parse(CTX, &g, A(0)->b);
    out_int(ret); out_generator(&g);
    return 1;
}
static int op_generator_serialize(void) {
    secp256k1_generator g; unsigned char out[33];
    NEED(1);
    if (!tok_generator(0, &g)) return -1;
    out_int(secp256k1_generator_serialize(CTX, out, &g)); out_hex(out, 33);
    return 1;
}
static int op_generator_generate(void) {
    secp256k1_generator g; int ret;
    NEED(2); NEEDHEX(0, 32); NEEDOPT(1, 32);
    memset(&g, 0, sizeof g);
    if (A(1)->is_null) ret = secp256k1_generator_generate(CTX, &g, A(0)->b);
    else ret = secp256k1_generator_generate_blinded(CTX, &g, A(0)->b, A(1)->b);
    out_int(ret); out_generator(&g);
    return 1;
}
static int op_commit_parse(void) {
    secp256k1_pedersen_commitment c; unsigned char out[33]; int ret;
    NEED(1); NEEDHEX(0, 33);
    ret = secp256k1_pedersen_commitment_parse(CTX, &c, A(0)->b);
    out_int(ret);
    if (ret) { secp256k1_pedersen_commitment_serialize(CTX, out, &c); out_hex(out, 33); } else out_str("-");
    return 1;
}
static int op_pedersen_commit(void) {
    secp256k1_pedersen_commitment c; secp256k1_generator g; unsigned char out[33]; int ret;
    NEED(3); NEEDHEX(0, 32);
    if (!tok_generator(2, &g)) return -1;
    ret = secp256k1_pedersen_commit(CTX, &c, A(0)->b, (uint64_t)strtoull(A(1)->s, NULL, 10), &g);
    out_int(ret);
    if (ret) { secp256k1_ge ge; secp256k1_pedersen_commitment_serialize(CTX, out, &c); out_hex(out, 33);
               secp256k1_pedersen_commitment_load(&ge, &c); out_ge(&ge); }
    else { out_str("-"); out_str("Z"); }
    return 1;
}
static int op_blind_sum(void) {
    size_t n, i, np; const unsigned char **ptrs; unsigned char out[32]; int ret;
    if (g_argc < 1) return -1;
    n = (size_t)g_argc - 1; np = (size_t)arg_int(0);
    ptrs = (const unsigned char**)malloc((n + 1) * sizeof *ptrs);
    for (i = 0; i < n; i++) { if (!A(1 + (int)i)->is_hex || A(1 + (int)i)->n != 32) { free(ptrs); return -1; } ptrs[i] = A(1 + (int)i)->b; }
    ret = secp256k1_pedersen_blind_sum(CTX, out, ptrs, n, np);
    out_int(ret); if (ret) out_hex(out, 32); else out_str("-"); out_ill();
    free(ptrs);
    return 1;
}
static int op_verify_tally(void) {
    int sep = find_sep(0), i; size_t pc, nc; secp256k1_pedersen_commitment *cs; const secp256k1_pedersen_commitment **pp, **np;
    if (sep < 0) return -1;
    pc = (size_t)sep; nc = (size_t)(g_argc - sep - 1);
    cs = (secp256k1_pedersen_commitment*)malloc((pc + nc + 1) * sizeof *cs);
    pp = (const secp256k1_pedersen_commitment**)malloc((pc + 1) * sizeof *pp);
    np = (const secp256k1_pedersen_commitment**)malloc((nc + 1) * sizeof *np);
    for (i = 0; i < g_argc; i++) {
        int k;
        if (i == sep) continue;
        k = i < sep ? i : i - 1;
        if (!A(i)->is_hex || A(i)->n != 33 || !secp256k1_pedersen_commitment_parse(CTX, &cs[k], A(i)->b)) { free(cs); free(pp); free(np); return -1; }
        if (i < sep) pp[i] = &cs[k]; else np[i - sep - 1] = &cs[k];
    }
    out_int(secp256k1_pedersen_verify_tally(CTX, pc ? pp : NULL, pc, nc ? np : NULL, nc));
    free(cs); free(pp); free(np);
    return 1;
}
static int op_blind_gen_blind_sum(void) {
    size_t n, i, ni; uint64_t *vals; const unsigned char **gb; unsigned char **bf; unsigned char (*store)[32]; int ret;
    if (g_argc < 1 || (g_argc - 1) % 3) return -1;
    n = (size_t)(g_argc - 1) / 3; ni = (size_t)arg_int(0);
    vals = (uint64_t*)malloc((n + 1) * sizeof *vals); gb = (const unsigned char**)malloc((n + 1) * sizeof *gb);
    bf = (unsigned char**)malloc((n + 1) * sizeof *bf); store = (unsigned char (*)[32])malloc((n + 1) * 32);
    for (i = 0; i < n; i++) {
        int a = 1 + 3 * (int)i;
        if (!A(a+1)->is_hex || A(a+1)->n != 32 || !A(a+2)->is_hex || A(a+2)->n != 32) { free(vals); free(gb); free(bf); free(store); return -1; }
        vals[i] = (uint64_t)strtoull(A(a)->s, NULL, 10); gb[i] = A(a+1)->b; memcpy(store[i], A(a+2)->b, 32); bf[i] = store[i];
    }
    ret = secp256k1_pedersen_blind_generator_blind_sum(CTX, vals, gb, bf, n, ni);
    out_int(ret);
    if (ret && n > 0 && !g_illegal) out_hex(store[n - 1], 32); else out_str("-");
    out_ill();
    free(vals); free(gb); free(bf); free(store);
    return 1;
}
/* borromean_sign m / rsizes / secidx / k / sec / s / pubs */
static int op_borromean_sign(void) {
    int s1, s2, s3, s4, s5, s6; size_t nr, tot = 0, i; size_t *rs, *si; secp256k1_scalar *k, *sec, *s; secp256k1_gej *pubs;
    unsigned char e0[32]; int ret;
    const secp256k1_hash_ctx *hc = secp256k1_get_hash_context(CTX);
    if (g_argc < 2 || strcmp(A(1)->s, "/")) return -1;
    NEEDANYHEX(0);
    s1 = 1; s2 = find_sep(s1 + 1); if (s2 < 0) return -1; s3 = find_sep(s2 + 1); if (s3 < 0) return -1;
    s4 = find_sep(s3 + 1); if (s4 < 0) return -1; s5 = find_sep(s4 + 1); if (s5 < 0) return -1; s6 = find_sep(s5 + 1); if (s6 < 0) return -1;
    nr = (size_t)(s2 - s1 - 1);
    if ((size_t)(s3 - s2 - 1) != nr || (size_t)(s4 - s3 - 1) != nr || (size_t)(s5 - s4 - 1) != nr || nr == 0) return -1;
    rs = (size_t*)malloc(nr * sizeof *rs); si = (size_t*)malloc(nr * sizeof *si);
    k = (secp256k1_scalar*)malloc(nr * sizeof *k); sec = (secp256k1_scalar*)malloc(nr * sizeof *sec);
    for (i = 0; i < nr; i++) {
        rs[i] = (size_t)arg_int(s1 + 1 + (int)i); si[i] = (size_t)arg_int(s2 + 1 + (int)i); tot += rs[i];
        secp256k1_scalar_set_b32(&k[i], A(s3 + 1 + (int)i)->b, NULL); secp256k1_scalar_set_b32(&sec[i], A(s4 + 1 + (int)i)->b, NULL);
    }
    if ((size_t)(s6 - s5 - 1) != tot || (size_t)(g_argc - s6 - 1) != tot) { free(rs); free(si); free(k); free(sec); return -1; }
    s = (secp256k1_scalar*)malloc((tot + 1) * sizeof *s); pubs = (secp256k1_gej*)malloc((tot + 1) * sizeof *pubs);
    for (i = 0; i < tot; i++) { secp256k1_ge ge; secp256k1_scalar_set_b32(&s[i], A(s5 + 1 + (int)i)->b, NULL);
        if (!tok_ge(s6 + 1 + (int)i, &ge)) { free(rs); free(si); free(k); free(sec); free(s); free(pubs); return -1; } secp256k1_gej_set_ge(&pubs[i], &ge); }
    ret = secp256k1_borromean_sign(hc, &CTX->ecmult_gen_ctx, e0, s, pubs, k, sec, rs, si, nr, A(0)->b, A(0)->n);
    out_int(ret);
    if (ret) { out_hex(e0, 32); for (i = 0; i < tot; i++) out_scalar(&s[i]);
               out_int(secp256k1_borromean_verify(hc, NULL, e0, s, pubs, rs, nr, A(0)->b, A(0)->n)); }
    free(rs); free(si); free(k); free(sec); free(s); free(pubs);
    return 1;
}
/* borromean_verify m e0 / rsizes / s / pubs */
static int op_borromean_verify(void) {
    int s1, s2, s3; size_t nr, tot = 0, i; size_t *rs; secp256k1_scalar *s, *ev; secp256k1_gej *pubs; int ret;
    const secp256k1_hash_ctx *hc = secp256k1_get_hash_context(CTX);
    if (g_argc < 3 || strcmp(A(2)->s, "/")) return -1;
    NEEDANYHEX(0); NEEDHEX(1, 32);
    s1 = 2; s2 = find_sep(s1 + 1); if (s2 < 0) return -1; s3 = find_sep(s2 + 1); if (s3 < 0) return -1;
    nr = (size_t)(s2 - s1 - 1); if (nr == 0) return -1;
    rs = (size_t*)malloc(nr * sizeof *rs);
    for (i = 0; i < nr; i++) { rs[i] = (size_t)arg_int(s1 + 1 + (int)i); tot += rs[i]; }
    if ((size_t)(s3 - s2 - 1) != tot || (size_t)(g_argc - s3 - 1) != tot) { free(rs); return -1; }
    s = (secp256k1_scalar*)malloc((tot + 1) * sizeof *s); ev = (secp256k1_scalar*)malloc((tot + 1) * sizeof *ev); pubs = (secp256k1_gej*)malloc((tot + 1) * sizeof *pubs);
    for (i = 0; i < tot; i++) { secp256k1_ge ge; secp256k1_scalar_set_b32(&s[i], A(s2 + 1 + (int)i)->b, NULL);
        if (!tok_ge(s3 + 1 + (int)i, &ge)) { free(rs); free(s); free(ev); free(pubs); return -1; } secp256k1_gej_set_ge(&pubs[i], &ge); }
    ret = secp256k1_borromean_verify(hc, ev, A(1)->b, s, pubs, rs, nr, A(0)->b, A(0)->n);
    out_int(ret);
    if (ret) for (i = 0; i < tot; i++) out_scalar(&ev[i]);
    free(rs); free(s); free(ev); free(pubs);
    return 1;
}
static int ops_generator(const char *op) {
#define OP(name, call) if (!strcmp(op, name)) return call;
    OP("generator_parse", op_generator_parse()) OP("generator_serialize", op_generator_serialize())
    OP("generator_generate", op_generator_generate()) OP("commit_parse", op_commit_parse())
    OP("pedersen_commit", op_pedersen_commit()) OP("blind_sum", op_blind_sum()) OP("verify_tally", op_verify_tally())
    OP("blind_gen_blind_sum", op_blind_gen_blind_sum())
    OP("borromean_sign", op_borromean_sign()) OP("borromean_verify", op_borromean_verify())
#undef OP
    return 0;
}
