/* ops_context.h: context histories, static context, allocation counting, threads (C20) */
#include <pthread.h>

/* ---- an independent, straightforward SHA-256 compression function ("replaced but correct") ---- */
static uint32_t hx_rotr(uint32_t x, int n) { return (x >> n) | (x << (32 - n)); }
static void harness_sha256_transform(uint32_t *state, const unsigned char *blocks64, size_t n_blocks) {
    static const uint32_t K[64] = {
        0x428a2f98,0x71374491,0xb5c0fbcf,0xe9b5dba5,0x3956c25b,0x59f111f1,0x923f82a4,0xab1c5ed5,0xd807aa98,0x12835b01,0x243185be,0x550c7dc3,0x72be5d74,0x80deb1fe,0x9bdc06a7,0xc19bf174,
        0xe49b69c1,0xefbe4786,0x0fc19dc6,0x240ca1cc,0x2de92c6f,0x4a7484aa,0x5cb0a9dc,0x76f988da,0x983e5152,0xa831c66d,0xb00327c8,0xbf597fc7,0xc6e00bf3,0xd5a79147,0x06ca6351,0x14292967,
        0x27b70a85,0x2e1b2138,0x4d2c6dfc,0x53380d13,0x650a7354,0x766a0abb,0x81c2c92e,0x92722c85,0xa2bfe8a1,0xa81a664b,0xc24b8b70,0xc76c51a3,0xd192e819,0xd6990624,0xf40e3585,0x106aa070,
        0x19a4c116,0x1e376c08,0x2748774c,0x34b0bcb5,0x391c0cb3,0x4ed8aa4a,0x5b9cca4f,0x682e6ff3,0x748f82ee,0x78a5636f,0x84c87814,0x8cc70208,0x90befffa,0xa4506ceb,0xbef9a3f7,0xc67178f2 };
    while (n_blocks--) {
        uint32_t w[64], a, b, c, d, e, f, g, h, t1, t2; int i;
        for (i = 0; i < 16; i++) w[i] = ((uint32_t)blocks64[4*i] << 24) | ((uint32_t)blocks64[4*i+1] << 16) | ((uint32_t)blocks64[4*i+2] << 8) | blocks64[4*i+3];
        for (i = 16; i < 64; i++) {
            uint32_t s0 = hx_rotr(w[i-15], 7) ^ hx_rotr(w[i-15], 18) ^ (w[i-15] >> 3);
            uint32_t s1 = hx_rotr(w[i-2], 17) ^ hx_rotr(w[i-2], 19) ^ (w[i-2] >> 10);
            w[i] = w[i-16] + s0 + w[i-7] + s1;
        }
        a = state[0]; b = state[1]; c = state[2]; d = state[3]; e = state[4]; f = state[5]; g = state[6]; h = state[7];
        for (i = 0; i < 64; i++) {
            t1 = h + (hx_rotr(e, 6) ^ hx_rotr(e, 11) ^ hx_rotr(e, 25)) + ((e & f) ^ (~e & g)) + K[i] + w[i];
            t2 = (hx_rotr(a, 2) ^ hx_rotr(a, 13) ^ hx_rotr(a, 22)) + ((a & b) ^ (a & c) ^ (b & c));
            h = g; g = f; f = e; e = d + t1; d = c; c = b; b = a; a = t1 + t2;
        }
        state[0] += a; state[1] += b; state[2] += c; state[3] += d; state[4] += e; state[5] += f; state[6] += g; state[7] += h;
        blocks64 += 64;
    }
}

/* ---- allocation counting through the sanitizer's malloc hooks (absent under TSan/no sanitizer) ---- */
static volatile long g_malloc_count = 0;
#if defined(__SANITIZE_ADDRESS__)
extern int __sanitizer_install_malloc_and_free_hooks(void (*malloc_hook)(const volatile void *, size_t), void (*free_hook)(const volatile void *));
static void harness_malloc_hook(const volatile void *p, size_t n) { (void)p; (void)n; g_malloc_count++; }
static void harness_free_hook(const volatile void *p) { (void)p; }
static int g_hooks_installed = 0;
static void install_hooks(void) { if (!g_hooks_installed) { __sanitizer_install_malloc_and_free_hooks(harness_malloc_hook, harness_free_hook); g_hooks_installed = 1; } }
#define HAVE_ALLOC_COUNT 1
#else
static void install_hooks(void) {}
#define HAVE_ALLOC_COUNT 0
#endif

/* battery = protocol lines after the first "/" token, separated by "|" tokens */
typedef struct { char **lines; int n; } battery_t;
static void battery_free(battery_t *b) { int i; for (i = 0; i < b->n; i++) free(b->lines[i]); free(b->lines); }
static int battery_parse(int from, battery_t *b) {
    int i; size_t cap = 16; char *cur = NULL; size_t curlen = 0;
    b->lines = (char**)malloc(cap * sizeof(char*)); b->n = 0;
    for (i = from; i <= g_argc; i++) {
        if (i == g_argc || !strcmp(A(i)->s, "|")) {
            if (cur) { if ((size_t)b->n == cap) { cap *= 2; b->lines = (char**)realloc(b->lines, cap * sizeof(char*)); } b->lines[b->n++] = cur; cur = NULL; curlen = 0; }
        } else {
            size_t l = strlen(A(i)->s);
            cur = (char*)realloc(cur, curlen + l + 2);
            if (curlen) cur[curlen++] = ' ';
            memcpy(cur + curlen, A(i)->s, l); curlen += l; cur[curlen] = 0;
        }
    }
    return 1;
}
/* run all battery lines with the context `c`; returns malloc'd array of result strings and illegal counts */
static char **battery_run(secp256k1_context *c, const battery_t *b, int *ill) {
    /* ill[i] receives the number of illegal callbacks of line i */
    secp256k1_context *saved = CTX; char **res = (char**)malloc((b->n + 1) * sizeof(char*)); int i;
    CTX = c;
    for (i = 0; i < b->n; i++) res[i] = run_nested(b->lines[i], ill ? &ill[i] : NULL);
    CTX = saved;
    return res;
}
static void results_free(char **r, int n) { int i; for (i = 0; i < n; i++) free(r[i]); free(r); }

static void out_blind_state(const secp256k1_context *c) {
    secp256k1_scalar diff, t; unsigned char b[32]; secp256k1_fe f;
    if (!secp256k1_ecmult_gen_context_is_built(&c->ecmult_gen_ctx)) { out_str("unbuilt"); return; }
    secp256k1_ecmult_gen_scalar_diff(&diff); secp256k1_scalar_negate(&diff, &diff);
    secp256k1_scalar_add(&t, &c->ecmult_gen_ctx.scalar_offset, &diff);   /* scalar_offset - diff */
    out_scalar(&t); out_ge(&c->ecmult_gen_ctx.ge_offset);
    f = c->ecmult_gen_ctx.proj_blind; secp256k1_fe_normalize(&f); secp256k1_fe_get_b32(b, &f); out_hex(b, 32);
}

/* ctx_history <combbits> step* / battery
 * steps: create prealloc clone pclone rand:<hex32|_> sha:c sha:_ call state destroy */
static int op_ctx_history(void) {
    int sep = -1, i; battery_t bat; char **base; secp256k1_context *cur = NULL; void *cur_mem = NULL; int cur_prealloc = 0;
    secp256k1_context *fresh;
    if (g_argc < 2) return -1;
    if (atoi(A(0)->s) != COMB_BITS) { out_str("skip"); return 1; }
    for (i = 1; i < g_argc; i++) if (!strcmp(A(i)->s, "/")) { sep = i; break; }
    if (sep < 0) return -1;
    battery_parse(sep + 1, &bat);
    install_hooks();
    fresh = secp256k1_context_create(SECP256K1_CONTEXT_NONE);
    secp256k1_context_set_illegal_callback(fresh, count_illegal, NULL); secp256k1_context_set_error_callback(fresh, count_error, NULL);
    base = battery_run(fresh, &bat, NULL);
    for (i = 1; i < sep; i++) {
        const char *st = A(i)->s;
        if (!strcmp(st, "create") || !strcmp(st, "prealloc")) {
            long m0;
            if (cur) { if (cur_prealloc) { secp256k1_context_preallocated_destroy(cur); free(cur_mem); } else secp256k1_context_destroy(cur); cur = NULL; }
            m0 = g_malloc_count;
            if (!strcmp(st, "create")) { cur = secp256k1_context_create(SECP256K1_CONTEXT_NONE); cur_prealloc = 0; }
            else { size_t sz = secp256k1_context_preallocated_size(SECP256K1_CONTEXT_NONE); cur_mem = malloc(sz); m0 = g_malloc_count; cur = secp256k1_context_preallocated_create(cur_mem, SECP256K1_CONTEXT_NONE); cur_prealloc = 1; }
            if (HAVE_ALLOC_COUNT) { char b[32]; snprintf(b, sizeof b, "a%ld", g_malloc_count - m0); out_str(b); } else out_str(cur_prealloc ? "a0" : "a1");
            secp256k1_context_set_illegal_callback(cur, count_illegal, NULL); secp256k1_context_set_error_callback(cur, count_error, NULL);
        } else if (!strcmp(st, "clone") || !strcmp(st, "pclone")) {
            secp256k1_context *nc; void *nm = NULL; long m0;
            if (!cur) { battery_free(&bat); return -1; }
            m0 = g_malloc_count;
            if (!strcmp(st, "clone")) nc = secp256k1_context_clone(cur);
            else { size_t sz = secp256k1_context_preallocated_clone_size(cur); nm = malloc(sz); m0 = g_malloc_count; nc = secp256k1_context_preallocated_clone(cur, nm); }
            if (HAVE_ALLOC_COUNT) { char b[32]; snprintf(b, sizeof b, "a%ld", g_malloc_count - m0); out_str(b); } else out_str(nm ? "a0" : "a1");
            if (cur_prealloc) { secp256k1_context_preallocated_destroy(cur); free(cur_mem); } else secp256k1_context_destroy(cur);
            cur = nc; cur_mem = nm; cur_prealloc = nm != NULL;
        } else if (!strncmp(st, "rand:", 5)) {
            unsigned char seed[32]; int r;
            if (!cur) { battery_free(&bat); return -1; }
            if (!strcmp(st + 5, "_")) r = secp256k1_context_randomize(cur, NULL);
            else { if (!tok_hex32(st + 5, seed)) { battery_free(&bat); return -1; } r = secp256k1_context_randomize(cur, seed); }
            out_int(r);
        } else if (!strcmp(st, "sha:c")) { if (!cur) return -1; secp256k1_context_set_sha256_compression(cur, harness_sha256_transform); out_str("ok"); }
        else if (!strcmp(st, "sha:_")) { if (!cur) return -1; secp256k1_context_set_sha256_compression(cur, NULL); out_str("ok"); }
        else if (!strcmp(st, "state")) { if (!cur) return -1; out_blind_state(cur); }
        else if (!strcmp(st, "call")) {
            char **r; int k, diff = 0; int *ill = (int*)calloc(bat.n + 1, sizeof(int));
            if (!cur) return -1;
            r = battery_run(cur, &bat, ill);
            for (k = 0; k < bat.n; k++) if (strcmp(r[k], base[k])) { char b[64]; snprintf(b, sizeof b, "DIFF@%d", k); out_str(b); diff = 1; }
            if (!diff) out_str("same");
            results_free(r, bat.n); free(ill);
        } else if (!strcmp(st, "destroy")) {
            if (cur) { if (cur_prealloc) { secp256k1_context_preallocated_destroy(cur); free(cur_mem); } else secp256k1_context_destroy(cur); cur = NULL; out_str("ok"); }
        } else { battery_free(&bat); return -1; }
    }
    if (cur) { if (cur_prealloc) { secp256k1_context_preallocated_destroy(cur); free(cur_mem); } else secp256k1_context_destroy(cur); }
    results_free(base, bat.n); battery_free(&bat);
    secp256k1_context_destroy(fresh);
    return 1;
}

/* ctx_static / battery : each line with a byte copy of the static context; per line: s (same result as a full
 * context, no callback), i (illegal callback raised), X (different result without callback) */
static int op_ctx_static(void) {
    battery_t bat; char **base, **r; int *ill, *ill0; int k; secp256k1_context *copy, *fresh;
    if (g_argc < 1 || strcmp(A(0)->s, "/")) return -1;
    battery_parse(1, &bat);
    fresh = secp256k1_context_create(SECP256K1_CONTEXT_NONE);
    secp256k1_context_set_illegal_callback(fresh, count_illegal, NULL);
    ill0 = (int*)calloc(bat.n + 1, sizeof(int));
    base = battery_run(fresh, &bat, ill0);
    copy = (secp256k1_context*)malloc(sizeof(secp256k1_context));
    memcpy(copy, secp256k1_context_static, sizeof(secp256k1_context));
    secp256k1_context_set_illegal_callback(copy, count_illegal, NULL); secp256k1_context_set_error_callback(copy, count_error, NULL);
    ill = (int*)calloc(bat.n + 1, sizeof(int));
    r = battery_run(copy, &bat, ill);
    for (k = 0; k < bat.n; k++) out_str(ill[k] > ill0[k] ? "i" : ((!strcmp(r[k], base[k]) && ill[k] == ill0[k]) ? "s" : "X"));
    /* context functions on the static context must report illegal use */
    { int before = g_illegal; unsigned char seed[32] = {1};
      (void)secp256k1_context_randomize(copy, seed); out_int(g_illegal - before); }
    /* cloning the static context is illegal use: one callback, NULL, and nothing allocated (c<callbacks><n|p> a<allocations>), twice */
    { int rep; install_hooks();
      for (rep = 0; rep < 2; rep++) {
        int before = g_illegal; long m0 = g_malloc_count; char b[48]; secp256k1_context *nc = secp256k1_context_clone(copy);
        snprintf(b, sizeof b, "c%d%s", g_illegal - before, nc ? "p" : "n"); out_str(b);
        if (HAVE_ALLOC_COUNT) { snprintf(b, sizeof b, "a%ld", g_malloc_count - m0); out_str(b); } else out_str("a0");
        if (nc) secp256k1_context_destroy(nc);
      } }
    results_free(r, bat.n); results_free(base, bat.n); free(ill); free(ill0); free(copy); battery_free(&bat);
    secp256k1_context_destroy(fresh);
    return 1;
}

/* ctx_threads <nthreads> <iters> / battery : all threads use ONE shared context through the const API */
typedef struct { secp256k1_context *ctx; const battery_t *bat; char **base; int iters; int mismatches; } thread_arg;
static void *thread_main(void *p) {
    thread_arg *ta = (thread_arg*)p; int it, k;
    for (it = 0; it < ta->iters; it++) {
        char **r = battery_run(ta->ctx, ta->bat, NULL);
        for (k = 0; k < ta->bat->n; k++) if (strcmp(r[k], ta->base[k])) ta->mismatches++;
        results_free(r, ta->bat->n);
    }
    return NULL;
}
static int op_ctx_threads(void) {
    battery_t bat; char **base; int nt, iters, k, mism = 0; pthread_t th[64]; thread_arg ta[64]; secp256k1_context *shared;
    if (g_argc < 3 || strcmp(A(2)->s, "/")) return -1;
    nt = atoi(A(0)->s); iters = atoi(A(1)->s); if (nt < 1 || nt > 64) return -1;
    battery_parse(3, &bat);
    shared = secp256k1_context_create(SECP256K1_CONTEXT_NONE);
    secp256k1_context_set_illegal_callback(shared, count_illegal, NULL); secp256k1_context_set_error_callback(shared, count_error, NULL);
    { unsigned char seed[32] = {7}; (void)secp256k1_context_randomize(shared, seed); }
    base = battery_run(shared, &bat, NULL);
    for (k = 0; k < nt; k++) { ta[k].ctx = shared; ta[k].bat = &bat; ta[k].base = base; ta[k].iters = iters; ta[k].mismatches = 0; pthread_create(&th[k], NULL, thread_main, &ta[k]); }
    for (k = 0; k < nt; k++) { pthread_join(th[k], NULL); mism += ta[k].mismatches; }
    out_str(mism ? "MISMATCH" : "same"); out_int(nt);
    results_free(base, bat.n); battery_free(&bat); secp256k1_context_destroy(shared);
    return 1;
}

static int ops_context(const char *op) {
    if (!strcmp(op, "ctx_history")) return op_ctx_history();
    if (!strcmp(op, "ctx_static")) return op_ctx_static();
    if (!strcmp(op, "ctx_threads")) return op_ctx_threads();
    return 0;
}
