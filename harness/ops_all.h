/* ops_all.h: includes every op family beyond ops_basic and lists their dispatchers. */
#include "ops_generator.h"
#include "ops_ellswift.h"
#include "ops_adaptor.h"
#include "ops_s2c.h"
#include "ops_whitelist.h"
#include "ops_halfagg.h"
#include "ops_bppp.h"
#include "ops_rangeproof.h"
#include "ops_musig.h"
#include "ops_surjection.h"
#include "ops_context.h"
#include "ops_kernel.h"
#define OPS_ALL_FAMILIES ops_generator, ops_ellswift, ops_adaptor, ops_s2c, ops_whitelist, ops_halfagg, ops_bppp, ops_rangeproof, ops_musig, ops_surjection, ops_context, ops_kernel,
