/* ops_all.h: includes every op family beyond ops_basic and lists their dispatchers. */
#define OPS_ALL_FAMILIES
