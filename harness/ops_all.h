/* ops_all.h: includes every op family beyond ops_basic and lists their dispatchers. */
#include "ops_generator.h"
#define OPS_ALL_FAMILIES ops_generator,
