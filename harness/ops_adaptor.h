/* ops_adaptor.h: ECDSA adaptor signatures (C14): public API, the internal 162-byte codec,
 * the default nonce function and the internal DLEQ prove / verify. */

/* ----- custom adaptor nonce functions ----- */
typedef struct { unsigned char a[32]; unsigned char b[32]; int mode; } adaptor_nonce_state;
/* mode 0: constant a; 1: always fail; 2: a for the 16-byte (signing) algo, b otherwise;
 * 3: a for the 16-byte algo, failure otherwise */
static __thread adaptor_nonce_state g_ans;
static int adaptor_nonce_custom(unsigned char *nonce32, const unsigned char *msg32, const unsigned char *key32, const unsigned char *pk33, const unsigned char *algo, size_t algolen, void *data) {
    (void)msg32; (void)key32; (void)pk33; (void)algo; (void)data;
    switch (g_ans.mode) {
    case 0: memcpy(nonce32, g_ans.a, 32); return 1;
    case 1: return 0;
    case 2: memcpy(nonce32, algolen == 16 ? g_ans.a : g_ans.b, 32); return 1;
    default: if (algolen == 16) { memcpy(nonce32, g_ans.a, 32); return 1; } return 0;
    }
}
static int hex32_at(const char *s, unsigned char *out) {
    size_t k;
    for (k = 0; k < 32; k++) { int a = hexval(s[2*k]), b = a < 0 ? -1 : hexval(s[2*k+1]); if (a < 0 || b < 0) return 0; out[k] = (unsigned char)(a * 16 + b); }
    return 1;
}
static int tok_noncefn_a(int i, secp256k1_nonce_function_hardened_ecdsa_adaptor *fp) {
    const char *s = A(i)->s; size_t l = strlen(s);
    if (!strcmp(s, "_")) { *fp = NULL; return 1; }
    if (!strcmp(s, "d")) { *fp = secp256k1_nonce_function_ecdsa_adaptor; return 1; }
    if (!strcmp(s, "f")) { g_ans.mode = 1; *fp = adaptor_nonce_custom; return 1; }
    if (s[0] == 'c' && l == 65) { if (!hex32_at(s + 1, g_ans.a)) return 0; g_ans.mode = 0; *fp = adaptor_nonce_custom; return 1; }
    if (s[0] == 'q' && l == 65) { if (!hex32_at(s + 1, g_ans.a)) return 0; g_ans.mode = 3; *fp = adaptor_nonce_custom; return 1; }
    if (s[0] == 'p' && l == 130 && s[65] == ':') {
        if (!hex32_at(s + 1, g_ans.a) || !hex32_at(s + 66, g_ans.b)) return 0;
        g_ans.mode = 2; *fp = adaptor_nonce_custom; return 1;
    }
    return 0;
}

/* adaptor_encrypt sk32 enckey msg32 noncefn ndata -> ret sig162 i<n> [adaptor_verify under pubkey(sk)] */
static int op_adaptor_encrypt(void) {
    secp256k1_pubkey enckey, pk; secp256k1_nonce_function_hardened_ecdsa_adaptor fp; int ret;
    unsigned char *out; unsigned char sk[32];
    NEED(5); NEEDHEX(0, 32); NEEDHEX(2, 32); NEEDOPT(4, 32);
    if (!tok_pubkey(1, &enckey) || !tok_noncefn_a(3, &fp)) return -1;
    out = (unsigned char*)malloc(162); memset(out, 0xAA, 162);
    memcpy(sk, A(0)->b, 32);
    ret = secp256k1_ecdsa_adaptor_encrypt(CTX, out, A(0)->b, &enckey, A(2)->b, fp, OPT(4));
    out_int(ret); out_hex(out, 162); out_ill();
    if (memcmp(sk, A(0)->b, 32)) out_str("SECKEY-MODIFIED");
    if (ret == 1) {
        int v = 0;
        if (secp256k1_ec_pubkey_create(CTX, &pk, A(0)->b)) v = secp256k1_ecdsa_adaptor_verify(CTX, out, &pk, A(2)->b, &enckey);
        out_int(v);
    }
    free(out);
    return 1;
}
static int op_adaptor_verify(void) {
    secp256k1_pubkey pk, enckey;
    NEED(4); NEEDHEX(0, 162); NEEDHEX(2, 32);
    if (!tok_pubkey(1, &pk) || !tok_pubkey(3, &enckey)) return -1;
    out_int(secp256k1_ecdsa_adaptor_verify(CTX, A(0)->b, &pk, A(2)->b, &enckey)); out_ill();
    return 1;
}
static int op_adaptor_decrypt(void) {
    secp256k1_ecdsa_signature sig; int ret;
    NEED(2); NEEDHEX(0, 32); NEEDHEX(1, 162);
    { secp256k1_scalar one; secp256k1_scalar_set_int(&one, 1); secp256k1_ecdsa_signature_save(&sig, &one, &one); }
    ret = secp256k1_ecdsa_adaptor_decrypt(CTX, &sig, A(0)->b, A(1)->b);
    out_int(ret); out_sig(&sig);
    if (!ret && !all_zero(&sig, sizeof sig)) out_str("NOT-ZEROED");
    return 1;
}
static int op_adaptor_recover(void) {
    secp256k1_ecdsa_signature sig; secp256k1_pubkey enckey; unsigned char *dk; int ret;
    NEED(3); NEEDHEX(1, 162);
    if (!tok_sig(0, &sig) || !tok_pubkey(2, &enckey)) return -1;
    dk = (unsigned char*)malloc(32); memset(dk, 0xAA, 32);
    ret = secp256k1_ecdsa_adaptor_recover(CTX, dk, &sig, A(1)->b, &enckey);
    out_int(ret); out_hex(dk, 32); out_ill();
    free(dk);
    return 1;
}
/* adaptor_deser sig162 -> full shape then (sigr, s') shape of the internal deserializer */
static int op_adaptor_deser(void) {
    secp256k1_ge r, rp; secp256k1_scalar sigr, sp, e, s; int ret;
    NEED(1); NEEDHEX(0, 162);
    ret = secp256k1_ecdsa_adaptor_sig_deserialize(&r, &sigr, &rp, &sp, &e, &s, A(0)->b);
    out_int(ret);
    if (ret) { out_ge(&r); out_scalar(&sigr); out_ge(&rp); out_scalar(&sp); out_scalar(&e); out_scalar(&s); }
    ret = secp256k1_ecdsa_adaptor_sig_deserialize(NULL, &sigr, NULL, &sp, NULL, NULL, A(0)->b);
    out_int(ret);
    if (ret) { out_scalar(&sigr); out_scalar(&sp); }
    return 1;
}
static int tok_scalar_mod(int i, secp256k1_scalar *s) {
    if (!A(i)->is_hex || A(i)->n != 32) return 0;
    secp256k1_scalar_set_b32(s, A(i)->b, NULL);
    return 1;
}
static int op_adaptor_ser(void) {
    secp256k1_ge r, rp; secp256k1_scalar sp, e, s; unsigned char out[162];
    NEED(5);
    if (!tok_ge(0, &r) || !tok_ge(1, &rp) || r.infinity || rp.infinity) return -1;
    if (!tok_scalar_mod(2, &sp) || !tok_scalar_mod(3, &e) || !tok_scalar_mod(4, &s)) return -1;
    secp256k1_ecdsa_adaptor_sig_serialize(out, &r, &rp, &sp, &e, &s);
    out_str("ser"); out_hex(out, 162);
    return 1;
}
/* adaptor_nonce msg32 key32 pk33 algo|_ ndata|_ */
static int op_adaptor_nonce(void) {
    unsigned char out[32]; int ret;
    NEED(5); NEEDHEX(0, 32); NEEDHEX(1, 32); NEEDHEX(2, 33); NEEDOPT(4, 32);
    if (!A(3)->is_null && !A(3)->is_hex) return -1;
    memset(out, 0, 32);
    ret = secp256k1_nonce_function_ecdsa_adaptor(out, A(0)->b, A(1)->b, A(2)->b, OPT(3), A(3)->is_null ? 0 : A(3)->n, OPT(4));
    out_int(ret); if (ret) out_hex(out, 32); else out_str("-");
    return 1;
}
/* dleq_prove sk32 gen2 noncefn ndata -> ret s e p1 p2 verify */
static int op_dleq_prove(void) {
    secp256k1_scalar sk, s, e; secp256k1_ge gen2, p[2]; secp256k1_nonce_function_hardened_ecdsa_adaptor fp; int ret;
    NEED(4); NEEDOPT(3, 32);
    if (!tok_scalar_mod(0, &sk) || secp256k1_scalar_is_zero(&sk)) return -1;
    if (!tok_ge(1, &gen2) || gen2.infinity || !tok_noncefn_a(2, &fp)) return -1;
    secp256k1_dleq_pair(&CTX->ecmult_gen_ctx, p, &sk, &gen2);
    secp256k1_scalar_clear(&s); secp256k1_scalar_clear(&e);
    ret = secp256k1_dleq_prove(CTX, &s, &e, &sk, &p[0], &gen2, &p[1], fp, OPT(3));
    out_int(ret);
    if (ret) { out_scalar(&s); out_scalar(&e); } else { out_str("-"); out_str("-"); }
    out_ge(&p[0]); out_ge(&p[1]);
    out_int(ret ? secp256k1_dleq_verify(secp256k1_get_hash_context(CTX), &s, &e, &p[0], &gen2, &p[1]) : 0);
    return 1;
}
/* dleq_verify s32 e32 p1 gen2 p2 */
static int op_dleq_verify(void) {
    secp256k1_scalar s, e; secp256k1_ge p1, gen2, p2;
    NEED(5);
    if (!tok_scalar_mod(0, &s) || !tok_scalar_mod(1, &e)) return -1;
    if (!tok_ge(2, &p1) || !tok_ge(3, &gen2) || !tok_ge(4, &p2) || p1.infinity || gen2.infinity || p2.infinity) return -1;
    out_int(secp256k1_dleq_verify(secp256k1_get_hash_context(CTX), &s, &e, &p1, &gen2, &p2));
    return 1;
}

static int ops_adaptor(const char *op) {
#define OP(name, call) if (!strcmp(op, name)) return call;
    OP("adaptor_encrypt", op_adaptor_encrypt()) OP("adaptor_verify", op_adaptor_verify())
    OP("adaptor_decrypt", op_adaptor_decrypt()) OP("adaptor_recover", op_adaptor_recover())
    OP("adaptor_deser", op_adaptor_deser()) OP("adaptor_ser", op_adaptor_ser()) OP("adaptor_nonce", op_adaptor_nonce())
    OP("dleq_prove", op_dleq_prove()) OP("dleq_verify", op_dleq_verify())
#undef OP
    return 0;
}
