/* ops_basic.h: hashing, field/scalar/group kernel, ECDSA, recovery, codecs, keys, extrakeys, Schnorr */

static secp256k1_scratch_space *g_scratch_big = NULL;

static void harness_init(void) {
    g_scratch_big = secp256k1_scratch_space_create(CTX, 4 * 1024 * 1024);
}
static void harness_fini(void) {
    secp256k1_scratch_space_destroy(CTX, g_scratch_big);
}

/* ----- field programs ----- */
#define FE_STACK 64
static int op_fe_prog(void) {
    secp256k1_fe st[FE_STACK]; int sp = 0; int i;
    for (i = 0; i < g_argc; i++) {
        const char *t = A(i)->s; char c = t[0]; const char *rest = t + 1;
        switch (c) {
        case 'L': { unsigned char b[32]; size_t k; if (strlen(rest) != 64 || sp >= FE_STACK) return -1;
                    for (k = 0; k < 32; k++) b[k] = (unsigned char)(hexval(rest[2*k]) * 16 + hexval(rest[2*k+1]));
                    secp256k1_fe_set_b32_mod(&st[sp++], b); break; }
        case 'l': { unsigned char b[32]; size_t k; int r; if (strlen(rest) != 64 || sp >= FE_STACK) return -1;
                    for (k = 0; k < 32; k++) b[k] = (unsigned char)(hexval(rest[2*k]) * 16 + hexval(rest[2*k+1]));
                    r = secp256k1_fe_set_b32_limit(&st[sp], b); if (!r) secp256k1_fe_set_int(&st[sp], 0); sp++; out_int(r); break; }
        case 'B': { int m = atoi(rest); if (m < 0 || m > 32 || sp >= FE_STACK) return -1; secp256k1_fe_get_bounds(&st[sp++], m); break; }
        case 'A': if (sp < 2) return -1; secp256k1_fe_add(&st[sp-2], &st[sp-1]); sp--; break;
        case 'N': if (sp < 1) return -1; secp256k1_fe_negate_unchecked(&st[sp-1], &st[sp-1], atoi(rest)); break;
        case 'I': if (sp < 1) return -1; secp256k1_fe_mul_int_unchecked(&st[sp-1], atoi(rest)); break;
        case 'J': if (sp < 1) return -1; secp256k1_fe_add_int(&st[sp-1], atoi(rest)); break;
        case 'M': { secp256k1_fe r; if (sp < 2) return -1; secp256k1_fe_mul(&r, &st[sp-2], &st[sp-1]); st[sp-2] = r; sp--; break; }
        case 'S': { secp256k1_fe r; if (sp < 1) return -1; secp256k1_fe_sqr(&r, &st[sp-1]); st[sp-1] = r; break; }
        case 'H': if (sp < 1) return -1; secp256k1_fe_half(&st[sp-1]); break;
        case 'W': if (sp < 1) return -1; secp256k1_fe_normalize_weak(&st[sp-1]); break;
        case 'V': if (sp < 1) return -1; secp256k1_fe_normalize_var(&st[sp-1]); break;
        case 'F': if (sp < 1) return -1; secp256k1_fe_normalize(&st[sp-1]); break;
        case 'D': if (sp < 1 || sp >= FE_STACK) return -1; st[sp] = st[sp-1]; sp++; break;
        case 'X': { secp256k1_fe r; if (sp < 2) return -1; r = st[sp-1]; st[sp-1] = st[sp-2]; st[sp-2] = r; break; }
        case 'P': if (sp < 1) return -1; sp--; break;
        case 'z': if (sp < 1) return -1; out_int(secp256k1_fe_normalizes_to_zero(&st[sp-1])); break;
        case 'y': if (sp < 1) return -1; out_int(secp256k1_fe_normalizes_to_zero_var(&st[sp-1])); break;
        case 'o': { secp256k1_fe r; if (sp < 1) return -1; r = st[sp-1]; secp256k1_fe_normalize(&r); out_int(secp256k1_fe_is_odd(&r)); break; }
        case 'q': if (sp < 1) return -1; out_int(secp256k1_fe_is_square_var(&st[sp-1])); break;
        case 'r': { secp256k1_fe r; int ok; if (sp < 1) return -1; ok = secp256k1_fe_sqrt(&r, &st[sp-1]); st[sp-1] = r; out_int(ok); break; }
        case 'i': { secp256k1_fe r; if (sp < 1) return -1; secp256k1_fe_inv(&r, &st[sp-1]); st[sp-1] = r; break; }
        case 'j': { secp256k1_fe r; if (sp < 1) return -1; secp256k1_fe_inv_var(&r, &st[sp-1]); st[sp-1] = r; break; }
        case 'c': if (sp < 2) return -1; secp256k1_fe_cmov(&st[sp-2], &st[sp-1], atoi(rest)); sp--; break;
        case 't': { secp256k1_fe_storage sa, sb; if (sp < 2) return -1;
                    secp256k1_fe_normalize(&st[sp-2]); secp256k1_fe_normalize(&st[sp-1]);
                    secp256k1_fe_to_storage(&sa, &st[sp-2]); secp256k1_fe_to_storage(&sb, &st[sp-1]);
                    secp256k1_fe_storage_cmov(&sa, &sb, atoi(rest)); secp256k1_fe_from_storage(&st[sp-2], &sa); sp--; break; }
        case 'e': { secp256k1_fe a, b; if (sp < 2) return -1; a = st[sp-2]; b = st[sp-1];
                    secp256k1_fe_normalize_weak(&a); secp256k1_fe_normalize_weak(&b); out_int(secp256k1_fe_equal(&a, &b)); break; }
        case 'E': if (sp < 2) return -1; out_int(secp256k1_fe_equal(&st[sp-2], &st[sp-1])); break;   /* raw: contract a magnitude <= 1, b <= 31 */
        case 'x': { secp256k1_fe a, b; int r; if (sp < 2) return -1; a = st[sp-2]; b = st[sp-1];
                    secp256k1_fe_normalize(&a); secp256k1_fe_normalize(&b); r = secp256k1_fe_cmp_var(&a, &b);
                    out_int(r < 0 ? 2 : (r > 0 ? 1 : 0)); break; }
        case 's': { secp256k1_fe_storage s; if (sp < 1) return -1; secp256k1_fe_normalize(&st[sp-1]);
                    secp256k1_fe_to_storage(&s, &st[sp-1]); secp256k1_fe_from_storage(&st[sp-1], &s); break; }
        case 'g': { secp256k1_fe r; unsigned char b[32]; if (sp < 1) return -1; r = st[sp-1]; secp256k1_fe_normalize(&r);
                    secp256k1_fe_get_b32(b, &r); out_hex(b, 32); break; }
        default: return -1;
        }
    }
    if (sp > 0) { unsigned char b[32]; secp256k1_fe r = st[sp-1]; secp256k1_fe_normalize(&r); secp256k1_fe_get_b32(b, &r); out_hex(b, 32); }
    else out_str("-");
    return 1;
}

static void out_scalar(const secp256k1_scalar *s) { unsigned char b[32]; secp256k1_scalar_get_b32(b, s); out_hex(b, 32); }

static int op_sc(void) {
    secp256k1_scalar x, y, r; int ox, oy; const char *op;
    NEED(3); NEEDHEX(1, 32); NEEDHEX(2, 32);
    op = A(0)->s;
    secp256k1_scalar_set_b32(&x, A(1)->b, &ox);
    secp256k1_scalar_set_b32(&y, A(2)->b, &oy);
    out_int(ox); out_int(oy);
    if (!strcmp(op, "add")) { int o = secp256k1_scalar_add(&r, &x, &y); out_scalar(&r); out_int(o); }
    else if (!strcmp(op, "mul")) { secp256k1_scalar_mul(&r, &x, &y); out_scalar(&r); }
    else if (!strcmp(op, "neg")) { secp256k1_scalar_negate(&r, &x); out_scalar(&r); }
    else if (!strcmp(op, "inv")) { secp256k1_scalar_inverse(&r, &x); out_scalar(&r); }
    else if (!strcmp(op, "invvar")) { secp256k1_scalar_inverse_var(&r, &x); out_scalar(&r); }
    else if (!strcmp(op, "half")) { secp256k1_scalar_half(&r, &x); out_scalar(&r); }
    else if (!strcmp(op, "ishigh")) out_int(secp256k1_scalar_is_high(&x));
    else if (!strcmp(op, "iszero")) out_int(secp256k1_scalar_is_zero(&x));
    else if (!strcmp(op, "iseven")) out_int(secp256k1_scalar_is_even(&x));
    else if (!strcmp(op, "eq")) out_int(secp256k1_scalar_eq(&x, &y));
    else if (!strcmp(op, "condneg")) { r = x; secp256k1_scalar_cond_negate(&r, A(2)->b[31] & 1); out_scalar(&r); }
    else if (!strcmp(op, "cmov")) { r = x; secp256k1_scalar_cmov(&r, &y, A(2)->b[31] & 1); out_scalar(&r); }
    else if (!strcmp(op, "seckey")) { out_int(secp256k1_scalar_set_b32_seckey(&r, A(1)->b)); }
    else if (!strcmp(op, "caddbit")) {
        /* y (reduced) low byte = bit, next bit = flag; only legal when the sum stays below n */
        unsigned char yb[32], xb[32], sum[33]; unsigned int bitn, flag; int i, carry = 0, legal = 1;
        secp256k1_scalar_get_b32(yb, &y); secp256k1_scalar_get_b32(xb, &x);
        bitn = yb[31]; flag = yb[30] & 1;
        /* compute x + 2^bit as 33-byte number and compare with n */
        memset(sum, 0, 33); memcpy(sum + 1, xb, 32);
        if (flag) { int idx = 32 - (int)(bitn / 8); unsigned int add = 1u << (bitn % 8);
            for (i = idx; i >= 0 && add; i--) { unsigned int t = sum[i] + add; sum[i] = (unsigned char)t; add = t >> 8; } }
        (void)carry;
        { static const unsigned char nb[33] = {0,0xFF,0xFF,0xFF,0xFF,0xFF,0xFF,0xFF,0xFF,0xFF,0xFF,0xFF,0xFF,0xFF,0xFF,0xFF,0xFE,0xBA,0xAE,0xDC,0xE6,0xAF,0x48,0xA0,0x3B,0xBF,0xD2,0x5E,0x8C,0xD0,0x36,0x41,0x41};
          if (memcmp(sum, nb, 33) >= 0) legal = 0; }
        if (!legal) out_str("skip"); else { r = x; secp256k1_scalar_cadd_bit(&r, bitn, (int)flag); out_scalar(&r); }
    }
    else if (!strcmp(op, "sqr")) { secp256k1_scalar_sqr(&r, &x); out_scalar(&r); }
    else if (!strcmp(op, "split128")) { secp256k1_scalar r1, r2; secp256k1_scalar_split_128(&r1, &r2, &x); out_scalar(&r1); out_scalar(&r2); }
    else if (!strcmp(op, "bits")) {
        unsigned char yb[32]; unsigned int off, cnt; secp256k1_scalar_get_b32(yb, &y);
        off = yb[31]; cnt = (yb[30] % 32) + 1;
        if (off + cnt > 256) out_str("skip");
        else { uint32_t v = secp256k1_scalar_get_bits_var(&x, off, cnt); out_int((long long)v);
               if ((off + cnt - 1) / 32 == off / 32) { if (secp256k1_scalar_get_bits_limb32(&x, off, cnt) != v) out_str("LIMB32-MISMATCH"); } }
    }
    else if (!strcmp(op, "mulshift")) {
        unsigned int shift = 256 + (A(2)->b[0] % 129);
        secp256k1_scalar_mul_shift_var(&r, &x, &y, shift); out_scalar(&r); out_int(shift);
    }
    else if (!strcmp(op, "lambda")) {
        secp256k1_scalar r1, r2, t; int ok;
        secp256k1_scalar_split_lambda(&r1, &r2, &x);
        secp256k1_scalar_mul(&t, &secp256k1_const_lambda, &r2); secp256k1_scalar_add(&t, &t, &r1);
        ok = secp256k1_scalar_eq(&t, &x);
        { /* |r1|,|r2| < 2^128 */ unsigned char b1[32], b2[32]; secp256k1_scalar n1 = r1, n2 = r2;
          if (secp256k1_scalar_is_high(&n1)) secp256k1_scalar_negate(&n1, &n1);
          if (secp256k1_scalar_is_high(&n2)) secp256k1_scalar_negate(&n2, &n2);
          secp256k1_scalar_get_b32(b1, &n1); secp256k1_scalar_get_b32(b2, &n2);
          ok = ok && all_zero(b1, 16) && all_zero(b2, 16); }
        out_str(ok ? "split" : "BAD-SPLIT");
    }
    else return -1;
    return 1;
}

/* ----- group ----- */
/* ge_add P Q za zb : all addition variants on Jacobian representatives with z = za, zb */
static int op_ge_add(void) {
    secp256k1_ge p, q, qs; secp256k1_gej pj, qj, r; secp256k1_fe za, zb, zb2, zb3, zbinv;
    NEED(4); NEEDHEX(2, 32); NEEDHEX(3, 32);
    if (!tok_ge(0, &p) || !tok_ge(1, &q)) return -1;
    if (!secp256k1_fe_set_b32_limit(&za, A(2)->b) || !secp256k1_fe_set_b32_limit(&zb, A(3)->b)) return -1;
    if (secp256k1_fe_is_zero(&za) || secp256k1_fe_is_zero(&zb)) return -1;
    secp256k1_gej_set_ge(&pj, &p); secp256k1_gej_set_ge(&qj, &q);
    if (!p.infinity) secp256k1_gej_rescale(&pj, &za);
    if (!q.infinity) secp256k1_gej_rescale(&qj, &zb);
    secp256k1_gej_add_var(&r, &pj, &qj, NULL); out_gej(&r);
    /* contract (VERIFY_CHECK in group_impl.h): rzr must be NULL when a is infinity */
    { secp256k1_fe rzr; secp256k1_gej_add_var(&r, &pj, &qj, pj.infinity ? NULL : &rzr); out_gej(&r); }
    secp256k1_gej_add_ge_var(&r, &pj, &q, NULL); out_gej(&r);
    if (!q.infinity) { secp256k1_gej_add_ge(&r, &pj, &q); out_gej(&r); } else { secp256k1_gej_add_ge_var(&r, &pj, &q, NULL); out_gej(&r); }
    /* zinv variant: b given as (x*zb^2, y*zb^3) with bzinv = 1/zb */
    if (!q.infinity) {
        secp256k1_fe_sqr(&zb2, &zb); secp256k1_fe_mul(&zb3, &zb2, &zb); secp256k1_fe_inv(&zbinv, &zb);
        qs = q; secp256k1_fe_mul(&qs.x, &qs.x, &zb2); secp256k1_fe_mul(&qs.y, &qs.y, &zb3);
        secp256k1_gej_add_zinv_var(&r, &pj, &qs, &zbinv); out_gej(&r);
    } else { secp256k1_fe one; secp256k1_fe_set_int(&one, 1); secp256k1_gej_add_zinv_var(&r, &pj, &q, &one); out_gej(&r); }
    /* commuted */
    secp256k1_gej_add_var(&r, &qj, &pj, NULL); out_gej(&r);
    return 1;
}
static int op_ge_dbl(void) {
    secp256k1_ge p; secp256k1_gej pj, r; secp256k1_fe za;
    NEED(2); NEEDHEX(1, 32);
    if (!tok_ge(0, &p)) return -1;
    if (!secp256k1_fe_set_b32_limit(&za, A(1)->b) || secp256k1_fe_is_zero(&za)) return -1;
    secp256k1_gej_set_ge(&pj, &p);
    if (!p.infinity) secp256k1_gej_rescale(&pj, &za);
    secp256k1_gej_double_var(&r, &pj, NULL); out_gej(&r);
    secp256k1_gej_double(&r, &pj); out_gej(&r);
    { secp256k1_fe rzr; secp256k1_gej_double_var(&r, &pj, &rzr); out_gej(&r); }
    return 1;
}
static int op_ge_neg(void) {
    secp256k1_ge p, r; secp256k1_gej pj, rj;
    NEED(1);
    if (!tok_ge(0, &p)) return -1;
    secp256k1_ge_neg(&r, &p); out_ge(&r);
    secp256k1_gej_set_ge(&pj, &p); secp256k1_gej_neg(&rj, &pj); out_gej(&rj);
    return 1;
}
static int op_ecmult(void) {
    secp256k1_ge p; secp256k1_gej pj, r; secp256k1_scalar na, ng;
    NEED(3); NEEDHEX(1, 32); NEEDHEX(2, 32);
    if (!tok_ge(0, &p)) return -1;
    secp256k1_scalar_set_b32(&na, A(1)->b, NULL); secp256k1_scalar_set_b32(&ng, A(2)->b, NULL);
    secp256k1_gej_set_ge(&pj, &p);
    secp256k1_ecmult(&r, &pj, &na, &ng); out_gej(&r);
    return 1;
}
static int op_ecmult_gen(void) {
    secp256k1_gej r; secp256k1_scalar k;
    NEED(1); NEEDHEX(0, 32);
    secp256k1_scalar_set_b32(&k, A(0)->b, NULL);
    secp256k1_ecmult_gen(&CTX->ecmult_gen_ctx, &r, &k); out_gej(&r);
    return 1;
}
static int op_ecmult_const(void) {
    secp256k1_ge p; secp256k1_gej r; secp256k1_scalar k;
    NEED(2); NEEDHEX(1, 32);
    if (!tok_ge(0, &p) || p.infinity) return -1;
    secp256k1_scalar_set_b32(&k, A(1)->b, NULL);
    secp256k1_ecmult_const(&r, &p, &k); out_gej(&r);
    /* x-only variant agrees on x (when the result is finite and k != 0) */
    if (!secp256k1_scalar_is_zero(&k)) {
        secp256k1_fe rx; secp256k1_ge rg; int ok;
        ok = secp256k1_ecmult_const_xonly(&rx, &p.x, NULL, &k, 0);
        secp256k1_ge_set_gej_var(&rg, &r);
        secp256k1_fe_normalize_var(&rx); secp256k1_fe_normalize_var(&rg.x);
        if (!ok || !secp256k1_fe_equal(&rx, &rg.x)) out_str("XONLY-MISMATCH");
    }
    return 1;
}
typedef struct { secp256k1_scalar *sc; secp256k1_ge *pt; } multi_data;
static int multi_cb(secp256k1_scalar *sc, secp256k1_ge *pt, size_t idx, void *data) {
    multi_data *d = (multi_data*)data; *sc = d->sc[idx]; *pt = d->pt[idx]; return 1;
}
/* ecmult_multi <scratch: _ | size> <ng | _> (P k)* */
static int op_ecmult_multi(void) {
    size_t n, i; multi_data d; secp256k1_scalar ng; secp256k1_gej r; int ret;
    secp256k1_scratch_space *scr = NULL;
    if (g_argc < 2 || (g_argc % 2)) return -1;
    n = (size_t)(g_argc - 2) / 2;
    d.sc = (secp256k1_scalar*)malloc((n + 1) * sizeof(secp256k1_scalar));
    d.pt = (secp256k1_ge*)malloc((n + 1) * sizeof(secp256k1_ge));
    for (i = 0; i < n; i++) {
        if (!tok_ge((int)(2 + 2 * i), &d.pt[i]) || !A(3 + 2 * i)->is_hex || A(3 + 2 * i)->n != 32) { free(d.sc); free(d.pt); return -1; }
        secp256k1_scalar_set_b32(&d.sc[i], A(3 + 2 * i)->b, NULL);
    }
    if (!A(0)->is_null) scr = secp256k1_scratch_space_create(CTX, (size_t)arg_int(0));
    if (!A(1)->is_null) { if (!A(1)->is_hex || A(1)->n != 32) { free(d.sc); free(d.pt); return -1; } secp256k1_scalar_set_b32(&ng, A(1)->b, NULL); }
    ret = secp256k1_ecmult_multi_var(&CTX->error_callback, scr, &r, A(1)->is_null ? NULL : &ng, multi_cb, &d, n);
    out_int(ret);
    if (ret) out_gej(&r); else out_str("Z");
    if (scr) secp256k1_scratch_space_destroy(CTX, scr);
    free(d.sc); free(d.pt);
    return 1;
}
static int op_lift_x(void) {
    secp256k1_fe x; secp256k1_ge r; int ok;
    NEED(2); NEEDHEX(0, 32);
    secp256k1_fe_set_b32_mod(&x, A(0)->b);
    ok = secp256k1_ge_set_xo_var(&r, &x, (int)arg_int(1));
    out_int(ok);
    if (ok) out_ge(&r); else out_str("Z");
    return 1;
}

/* ----- hashing ----- */
static int op_sha256(void) {
    secp256k1_sha256 h; unsigned char out[32]; int i;
    const secp256k1_hash_ctx *hc = secp256k1_get_hash_context(CTX);
    secp256k1_sha256_initialize(&h);
    for (i = 0; i < g_argc; i++) { NEEDANYHEX(i); secp256k1_sha256_write(hc, &h, A(i)->b, A(i)->n); }
    secp256k1_sha256_finalize(hc, &h, out); out_hex(out, 32);
    return 1;
}
static int op_tagged(void) {
    unsigned char out[32]; int r;
    NEED(2); NEEDANYHEX(0); NEEDANYHEX(1);
    r = secp256k1_tagged_sha256(CTX, out, A(0)->b, A(0)->n, A(1)->b, A(1)->n);
    out_int(r); out_hex(out, 32);
    return 1;
}
static int op_hmac(void) {
    secp256k1_hmac_sha256 h; unsigned char out[32]; int i;
    const secp256k1_hash_ctx *hc = secp256k1_get_hash_context(CTX);
    if (g_argc < 1) return -1;
    NEEDANYHEX(0);
    secp256k1_hmac_sha256_initialize(hc, &h, A(0)->b, A(0)->n);
    for (i = 1; i < g_argc; i++) { NEEDANYHEX(i); secp256k1_hmac_sha256_write(hc, &h, A(i)->b, A(i)->n); }
    secp256k1_hmac_sha256_finalize(hc, &h, out); out_hex(out, 32);
    return 1;
}
static int op_rfc6979(void) {
    secp256k1_rfc6979_hmac_sha256 rng; int i;
    const secp256k1_hash_ctx *hc = secp256k1_get_hash_context(CTX);
    if (g_argc < 1) return -1;
    NEEDANYHEX(0);
    secp256k1_rfc6979_hmac_sha256_initialize(hc, &rng, A(0)->b, A(0)->n);
    for (i = 1; i < g_argc; i++) {
        size_t l = (size_t)arg_int(i); unsigned char *o = (unsigned char*)malloc(l ? l : 1);
        secp256k1_rfc6979_hmac_sha256_generate(hc, &rng, o, l); out_hex(o, l); free(o);
    }
    secp256k1_rfc6979_hmac_sha256_finalize(&rng);
    return 1;
}

/* ----- ECDSA ----- */
static int op_ecdsa_verify(void) {
    secp256k1_ecdsa_signature sig; secp256k1_pubkey pk;
    NEED(3); NEEDHEX(1, 32);
    if (!tok_sig(0, &sig) || !tok_pubkey(2, &pk)) return -1;
    out_int(secp256k1_ecdsa_verify(CTX, &sig, A(1)->b, &pk)); out_ill();
    return 1;
}
static int op_ecdsa_sign(void) {
    secp256k1_ecdsa_signature sig; secp256k1_nonce_function fp; secp256k1_pubkey pk; int ret, v = 0;
    NEED(4); NEEDHEX(0, 32); NEEDHEX(1, 32); NEEDOPT(3, 32);
    if (!tok_noncefn(2, &fp)) return -1;
    memset(&sig, 0xAA, sizeof sig);
    ret = secp256k1_ecdsa_sign(CTX, &sig, A(0)->b, A(1)->b, fp, OPT(3));
    out_int(ret); out_sig(&sig);
    if (secp256k1_ec_pubkey_create(CTX, &pk, A(1)->b)) v = secp256k1_ecdsa_verify(CTX, &sig, A(0)->b, &pk);
    out_int(v);
    return 1;
}
static int op_ecdsa_sign_rec(void) {
    secp256k1_ecdsa_recoverable_signature rsig; secp256k1_ecdsa_signature sig; secp256k1_nonce_function fp; secp256k1_pubkey pk;
    int ret, recid = 0, rret = 0; unsigned char c[64];
    NEED(4); NEEDHEX(0, 32); NEEDHEX(1, 32); NEEDOPT(3, 32);
    if (!tok_noncefn(2, &fp)) return -1;
    memset(&rsig, 0xAA, sizeof rsig); memset(&pk, 0, sizeof pk);
    ret = secp256k1_ecdsa_sign_recoverable(CTX, &rsig, A(0)->b, A(1)->b, fp, OPT(3));
    secp256k1_ecdsa_recoverable_signature_serialize_compact(CTX, c, &recid, &rsig);
    secp256k1_ecdsa_recoverable_signature_convert(CTX, &sig, &rsig);
    out_int(ret); out_sig(&sig); out_int(recid);
    if (ret) rret = secp256k1_ecdsa_recover(CTX, &pk, &rsig, A(0)->b);
    out_int(rret); out_pubkey(&pk);
    (void)c;
    return 1;
}
static int op_ecdsa_recover(void) {
    secp256k1_ecdsa_recoverable_signature rsig; secp256k1_pubkey pk; int ret;
    NEED(3); NEEDHEX(0, 64); NEEDHEX(2, 32);
    if (!secp256k1_ecdsa_recoverable_signature_parse_compact(CTX, &rsig, A(0)->b, (int)arg_int(1))) return -1;
    memset(&pk, 0xAA, sizeof pk);
    ret = secp256k1_ecdsa_recover(CTX, &pk, &rsig, A(2)->b);
    out_int(ret); out_pubkey(&pk);
    return 1;
}
static int op_sig_normalize(void) {
    secp256k1_ecdsa_signature sig, o; int ret;
    NEED(1);
    if (!tok_sig(0, &sig)) return -1;
    ret = secp256k1_ecdsa_signature_normalize(CTX, &o, &sig);
    out_int(ret); out_sig(&o);
    if (secp256k1_ecdsa_signature_normalize(CTX, NULL, &sig) != ret) out_str("NULLOUT-MISMATCH");
    return 1;
}
/* raw object bytes after a failed parse must be all zero: printed through out_sig (zero scalars),
 * and additionally checked bytewise */
static int op_sig_parse_compact(void) {
    secp256k1_ecdsa_signature sig; int ret;
    NEED(1); NEEDHEX(0, 64);
    memset(&sig, 0xAA, sizeof sig);
    /* pre-fill with a valid-looking object: r = s = 1 */
    { secp256k1_scalar one; secp256k1_scalar_set_int(&one, 1); secp256k1_ecdsa_signature_save(&sig, &one, &one); }
    ret = secp256k1_ecdsa_signature_parse_compact(CTX, &sig, A(0)->b);
    out_int(ret); out_sig(&sig);
    if (!ret && !all_zero(&sig, sizeof sig)) out_str("NOT-ZEROED");
    return 1;
}
static int op_rec_parse_compact(void) {
    secp256k1_ecdsa_recoverable_signature rsig; int ret, recid = 0; unsigned char c[64];
    NEED(2); NEEDHEX(0, 64);
    memset(&rsig, 0xAA, sizeof rsig);
    ret = secp256k1_ecdsa_recoverable_signature_parse_compact(CTX, &rsig, A(0)->b, (int)arg_int(1));
    out_int(ret);
    if (g_illegal) { out_str("untouched"); out_ill(); return 1; }
    if (!ret && !all_zero(&rsig, sizeof rsig)) out_str("NOT-ZEROED");
    secp256k1_ecdsa_recoverable_signature_serialize_compact(CTX, c, &recid, &rsig);
    out_hex(c, 64); out_int(recid); out_ill();
    return 1;
}
static int op_sig_parse_der(void) {
    secp256k1_ecdsa_signature sig; int ret; unsigned char *copy;
    NEED(1); NEEDANYHEX(0);
    { secp256k1_scalar one; secp256k1_scalar_set_int(&one, 1); secp256k1_ecdsa_signature_save(&sig, &one, &one); }
    /* exact-size heap copy so that ASan sees any over-read */
    copy = (unsigned char*)malloc(A(0)->n ? A(0)->n : 1); memcpy(copy, A(0)->b, A(0)->n);
    ret = secp256k1_ecdsa_signature_parse_der(CTX, &sig, copy, A(0)->n);
    free(copy);
    out_int(ret); out_sig(&sig);
    if (!ret && !all_zero(&sig, sizeof sig)) out_str("NOT-ZEROED");
    return 1;
}
static int op_sig_ser_der(void) {
    secp256k1_ecdsa_signature sig; size_t size, cap; unsigned char *buf; int ret;
    NEED(2);
    if (!tok_sig(0, &sig)) return -1;
    cap = (size_t)arg_int(1); size = cap;
    buf = (unsigned char*)malloc(cap ? cap : 1);
    ret = secp256k1_ecdsa_signature_serialize_der(CTX, buf, &size, &sig);
    out_int(ret);
    if (ret) out_hex(buf, size); else out_str("-");
    out_int((long long)size);
    free(buf);
    return 1;
}

/* ----- public keys ----- */
static int op_pubkey_parse(void) {
    secp256k1_pubkey pk; int ret; unsigned char *copy;
    NEED(1); NEEDANYHEX(0);
    memset(&pk, 0xAA, sizeof pk);
    copy = (unsigned char*)malloc(A(0)->n ? A(0)->n : 1); memcpy(copy, A(0)->b, A(0)->n);
    ret = secp256k1_ec_pubkey_parse(CTX, &pk, copy, A(0)->n);
    free(copy);
    out_int(ret); out_pubkey(&pk);
    if (!ret && !all_zero(&pk, sizeof pk)) out_str("NOT-ZEROED");
    return 1;
}
static int op_pubkey_serialize(void) {
    secp256k1_pubkey pk; size_t cap, len; unsigned char *buf; int ret, comp;
    NEED(3);
    if (!tok_pubkey(0, &pk)) return -1;
    cap = (size_t)arg_int(1); comp = (int)arg_int(2); len = cap;
    buf = (unsigned char*)malloc(cap ? cap : 1); memset(buf, 0xAA, cap);
    ret = secp256k1_ec_pubkey_serialize(CTX, buf, &len, &pk, comp ? SECP256K1_EC_COMPRESSED : SECP256K1_EC_UNCOMPRESSED);
    out_int(ret);
    if (g_illegal && len == cap && cap < (comp ? 33u : 65u)) { out_str("-"); }  /* buffer untouched */
    else out_hex(buf, cap);
    out_int((long long)len); out_ill();
    free(buf);
    return 1;
}
static int op_xonly_parse(void) {
    secp256k1_xonly_pubkey pk; int ret;
    NEED(1); NEEDHEX(0, 32);
    memset(&pk, 0xAA, sizeof pk);
    ret = secp256k1_xonly_pubkey_parse(CTX, &pk, A(0)->b);
    out_int(ret); out_pubkey((secp256k1_pubkey*)&pk);
    return 1;
}
static int op_xonly_serialize(void) {
    secp256k1_pubkey pk; unsigned char out[32]; int ret;
    NEED(1);
    if (!tok_pubkey(0, &pk)) return -1;
    memset(out, 0xAA, 32);
    ret = secp256k1_xonly_pubkey_serialize(CTX, out, (secp256k1_xonly_pubkey*)&pk);
    out_int(ret); out_hex(out, 32); out_ill();
    return 1;
}
static int op_seckey_verify(void) { NEED(1); NEEDHEX(0, 32); out_int(secp256k1_ec_seckey_verify(CTX, A(0)->b)); return 1; }
static int op_pubkey_create(void) {
    secp256k1_pubkey pk; int ret;
    NEED(1); NEEDHEX(0, 32);
    memset(&pk, 0xAA, sizeof pk);
    ret = secp256k1_ec_pubkey_create(CTX, &pk, A(0)->b);
    out_int(ret); out_pubkey(&pk);
    return 1;
}
static int op_seckey_negate(void) {
    unsigned char k[32]; int ret;
    NEED(1); NEEDHEX(0, 32);
    memcpy(k, A(0)->b, 32);
    ret = secp256k1_ec_seckey_negate(CTX, k);
    out_int(ret); out_hex(k, 32);
    return 1;
}
static int op_pubkey_negate(void) {
    secp256k1_pubkey pk; int ret;
    NEED(1);
    if (!tok_pubkey(0, &pk)) return -1;
    ret = secp256k1_ec_pubkey_negate(CTX, &pk);
    out_int(ret); out_pubkey(&pk); out_ill();
    return 1;
}
static int op_seckey_tweak(int mul) {
    unsigned char k[32]; int ret;
    NEED(2); NEEDHEX(0, 32); NEEDHEX(1, 32);
    memcpy(k, A(0)->b, 32);
    ret = mul ? secp256k1_ec_seckey_tweak_mul(CTX, k, A(1)->b) : secp256k1_ec_seckey_tweak_add(CTX, k, A(1)->b);
    out_int(ret); out_hex(k, 32);
    return 1;
}
static int op_pubkey_tweak(int mul) {
    secp256k1_pubkey pk; int ret;
    NEED(2); NEEDHEX(1, 32);
    if (!tok_pubkey(0, &pk)) return -1;
    ret = mul ? secp256k1_ec_pubkey_tweak_mul(CTX, &pk, A(1)->b) : secp256k1_ec_pubkey_tweak_add(CTX, &pk, A(1)->b);
    out_int(ret); out_pubkey(&pk); out_ill();
    return 1;
}
static int op_pubkey_combine(void) {
    secp256k1_pubkey *pks, out; const secp256k1_pubkey **ptrs; int i, ret;
    pks = (secp256k1_pubkey*)malloc((g_argc + 1) * sizeof *pks);
    ptrs = (const secp256k1_pubkey**)malloc((g_argc + 1) * sizeof *ptrs);
    for (i = 0; i < g_argc; i++) { if (!tok_pubkey(i, &pks[i])) { free(pks); free(ptrs); return -1; } ptrs[i] = &pks[i]; }
    memset(&out, 0xAA, sizeof out);
    ret = secp256k1_ec_pubkey_combine(CTX, &out, ptrs, (size_t)g_argc);
    out_int(ret); out_pubkey(&out); out_ill();
    free(pks); free(ptrs);
    return 1;
}
static int op_pubkey_cmp(int xonly) {
    secp256k1_pubkey a, b; int r;
    NEED(2);
    if (!tok_pubkey(0, &a) || !tok_pubkey(1, &b)) return -1;
    r = xonly ? secp256k1_xonly_pubkey_cmp(CTX, (secp256k1_xonly_pubkey*)&a, (secp256k1_xonly_pubkey*)&b) : secp256k1_ec_pubkey_cmp(CTX, &a, &b);
    out_int(r < 0 ? 2 : (r > 0 ? 1 : 0)); out_ill();
    return 1;
}
static int op_xonly_from_pubkey(void) {
    secp256k1_pubkey pk; secp256k1_xonly_pubkey x; int par = 0, ret;
    NEED(1);
    if (!tok_pubkey(0, &pk)) return -1;
    memset(&x, 0, sizeof x);
    ret = secp256k1_xonly_pubkey_from_pubkey(CTX, &x, &par, &pk);
    out_int(ret); out_pubkey((secp256k1_pubkey*)&x); out_int(par); out_ill();
    return 1;
}
static int op_xonly_tweak_add(void) {
    secp256k1_pubkey pk, out; int ret;
    NEED(2); NEEDHEX(1, 32);
    if (!tok_pubkey(0, &pk)) return -1;
    memset(&out, 0xAA, sizeof out);
    ret = secp256k1_xonly_pubkey_tweak_add(CTX, &out, (secp256k1_xonly_pubkey*)&pk, A(1)->b);
    out_int(ret); out_pubkey(&out); out_ill();
    return 1;
}
static int op_xonly_tweak_add_check(void) {
    secp256k1_pubkey pk; int ret;
    NEED(4); NEEDHEX(0, 32); NEEDHEX(3, 32);
    if (!tok_pubkey(2, &pk)) return -1;
    ret = secp256k1_xonly_pubkey_tweak_add_check(CTX, A(0)->b, (int)arg_int(1), (secp256k1_xonly_pubkey*)&pk, A(3)->b);
    out_int(ret); out_ill();
    return 1;
}
static int op_keypair_create(void) {
    secp256k1_keypair kp; int ret;
    NEED(1); NEEDHEX(0, 32);
    memset(&kp, 0xAA, sizeof kp);
    ret = secp256k1_keypair_create(CTX, &kp, A(0)->b);
    out_int(ret); out_keypair(&kp);
    if (ret) { /* accessors agree */ unsigned char sk[32]; secp256k1_pubkey pk; secp256k1_keypair_sec(CTX, sk, &kp); secp256k1_keypair_pub(CTX, &pk, &kp);
        if (memcmp(sk, &kp.data[0], 32) || memcmp(pk.data, &kp.data[32], 64)) out_str("ACCESSOR-MISMATCH"); }
    return 1;
}
static int op_keypair_xonly_pub(void) {
    secp256k1_keypair kp; secp256k1_xonly_pubkey x; int par = 0, ret;
    NEED(2);
    if (!tok_keypair(0, 1, &kp)) return -1;
    memset(&x, 0xAA, sizeof x);
    ret = secp256k1_keypair_xonly_pub(CTX, &x, &par, &kp);
    out_int(ret); out_pubkey((secp256k1_pubkey*)&x); out_int(par); out_ill();
    return 1;
}
static int op_keypair_xonly_tweak_add(void) {
    secp256k1_keypair kp; int ret;
    NEED(3); NEEDHEX(2, 32);
    if (!tok_keypair(0, 1, &kp)) return -1;
    ret = secp256k1_keypair_xonly_tweak_add(CTX, &kp, A(2)->b);
    out_int(ret); out_keypair(&kp); out_ill();
    return 1;
}

static int op_pubkey_sort(void) {
    secp256k1_pubkey *pks; const secp256k1_pubkey **ptrs; int i, ret;
    pks = (secp256k1_pubkey*)malloc((g_argc + 1) * sizeof *pks);
    ptrs = (const secp256k1_pubkey**)malloc((g_argc + 1) * sizeof *ptrs);
    for (i = 0; i < g_argc; i++) { if (!tok_pubkey(i, &pks[i])) { free(pks); free(ptrs); return -1; } ptrs[i] = &pks[i]; }
    ret = secp256k1_ec_pubkey_sort(CTX, ptrs, (size_t)g_argc);
    out_int(ret);
    for (i = 0; i < g_argc; i++) out_pubkey(ptrs[i]);
    free(pks); free(ptrs);
    return 1;
}
/* key_chain sk op* : a<t> add, m<t> mul, n negate, x<t> x-only (keypair) tweak; applied on both sides */
static int tok_hex32(const char *s, unsigned char *out) {
    size_t k; if (strlen(s) != 64) return 0;
    for (k = 0; k < 32; k++) { int a = hexval(s[2*k]), b = hexval(s[2*k+1]); if (a < 0 || b < 0) return 0; out[k] = (unsigned char)(a*16+b); }
    return 1;
}
static int op_key_chain(void) {
    unsigned char sk[32], t[32]; secp256k1_pubkey pk; int i, sec_ok = 1, pub_ok = 1;
    if (g_argc < 1) return -1; NEEDHEX(0, 32);
    memcpy(sk, A(0)->b, 32);
    if (!secp256k1_ec_pubkey_create(CTX, &pk, sk)) { out_str("badkey"); return 1; }
    for (i = 1; i < g_argc; i++) {
        const char *s = A(i)->s; char c = s[0];
        if (c == 'n') { if (s[1]) return -1; }
        else if (c == 'a' || c == 'm' || c == 'x') { if (!tok_hex32(s + 1, t)) return -1; }
        else return -1;
        if (sec_ok) {
            if (c == 'a') sec_ok = secp256k1_ec_seckey_tweak_add(CTX, sk, t);
            else if (c == 'm') sec_ok = secp256k1_ec_seckey_tweak_mul(CTX, sk, t);
            else if (c == 'n') sec_ok = secp256k1_ec_seckey_negate(CTX, sk);
            else { secp256k1_keypair kp; sec_ok = secp256k1_keypair_create(CTX, &kp, sk);
                   if (sec_ok) sec_ok = secp256k1_keypair_xonly_tweak_add(CTX, &kp, t);
                   if (sec_ok) secp256k1_keypair_sec(CTX, sk, &kp); }
        }
        if (pub_ok) {
            if (c == 'a') pub_ok = secp256k1_ec_pubkey_tweak_add(CTX, &pk, t);
            else if (c == 'm') pub_ok = secp256k1_ec_pubkey_tweak_mul(CTX, &pk, t);
            else if (c == 'n') pub_ok = secp256k1_ec_pubkey_negate(CTX, &pk);
            else { secp256k1_xonly_pubkey x; secp256k1_pubkey o; pub_ok = secp256k1_xonly_pubkey_from_pubkey(CTX, &x, NULL, &pk);
                   if (pub_ok) pub_ok = secp256k1_xonly_pubkey_tweak_add(CTX, &o, &x, t);
                   if (pub_ok) pk = o; }
        }
    }
    out_str("sec"); if (sec_ok) out_hex(sk, 32); else out_str("fail");
    out_str("pub"); if (pub_ok) out_pubkey(&pk); else out_str("fail");
    out_str("derived");
    if (sec_ok) { secp256k1_pubkey d; if (secp256k1_ec_pubkey_create(CTX, &d, sk)) out_pubkey(&d); else out_str("Z"); } else out_str("fail");
    return 1;
}

/* ----- Schnorr ----- */
/* schnorr_sign msg sk pk noncefn ndata : through sign_custom (sign32 additionally when msg is 32 bytes and noncefn is d) */
static int op_schnorr_sign(void) {
    secp256k1_keypair kp; secp256k1_nonce_function_hardened fp; int isnull, ret, v = 0; unsigned char sig[64];
    secp256k1_schnorrsig_extraparams ep = SECP256K1_SCHNORRSIG_EXTRAPARAMS_INIT;
    NEED(5); NEEDANYHEX(0); NEEDOPT(4, 32);
    if (!tok_keypair(1, 2, &kp) || !tok_noncefn_h(3, &fp, &isnull)) return -1;
    memset(sig, 0xAA, 64);
    ep.noncefp = fp; ep.ndata = OPT(4);
    if (isnull && A(4)->is_null && (A(0)->n % 2 == 0)) ret = secp256k1_schnorrsig_sign_custom(CTX, sig, A(0)->b, A(0)->n, &kp, NULL);
    else ret = secp256k1_schnorrsig_sign_custom(CTX, sig, A(0)->b, A(0)->n, &kp, &ep);
    out_int(ret); out_hex(sig, 64); out_ill();
    if (ret) { secp256k1_xonly_pubkey x; if (secp256k1_keypair_xonly_pub(CTX, &x, NULL, &kp)) v = secp256k1_schnorrsig_verify(CTX, sig, A(0)->b, A(0)->n, &x); }
    out_int(v);
    if (A(0)->n == 32 && (isnull || fp == secp256k1_nonce_function_bip340)) {
        unsigned char sig2[64]; int ill = g_illegal;
        int r2 = secp256k1_schnorrsig_sign32(CTX, sig2, A(0)->b, &kp, OPT(4));
        g_illegal = ill;
        if (r2 != ret || memcmp(sig, sig2, 64)) out_str("SIGN32-MISMATCH");
    }
    return 1;
}
static int op_schnorr_verify(void) {
    secp256k1_pubkey pk;
    NEED(3); NEEDHEX(0, 64); NEEDANYHEX(1);
    if (!tok_pubkey(2, &pk)) return -1;
    out_int(secp256k1_schnorrsig_verify(CTX, A(0)->b, A(1)->b, A(1)->n, (secp256k1_xonly_pubkey*)&pk)); out_ill();
    return 1;
}
static int op_nonce_bip340(void) {
    unsigned char out[32]; int ret;
    NEED(5); NEEDANYHEX(0); NEEDHEX(1, 32); NEEDHEX(2, 32); NEEDOPT(4, 32);
    if (!A(3)->is_null && !A(3)->is_hex) return -1;
    memset(out, 0, 32);
    ret = secp256k1_nonce_function_bip340(out, A(0)->b, A(0)->n, A(1)->b, A(2)->b, OPT(3), A(3)->is_null ? 0 : A(3)->n, OPT(4));
    out_int(ret); if (ret) out_hex(out, 32); else out_str("-");
    return 1;
}

/* shift args left by one (drop op-specific sub-op) not needed: `sc` takes the sub-op as arg 0 */
static int ops_basic(const char *op) {
#define OP(name, call) if (!strcmp(op, name)) return call;
    OP("sha256", op_sha256()) OP("tagged_sha256", op_tagged()) OP("hmac", op_hmac()) OP("rfc6979", op_rfc6979())
    OP("fe_prog", op_fe_prog()) OP("sc", op_sc())
    OP("ge_add", op_ge_add()) OP("ge_dbl", op_ge_dbl()) OP("ge_neg", op_ge_neg())
    OP("ecmult", op_ecmult()) OP("ecmult_gen", op_ecmult_gen()) OP("ecmult_const", op_ecmult_const())
    OP("ecmult_multi", op_ecmult_multi()) OP("lift_x", op_lift_x())
    OP("ecdsa_verify", op_ecdsa_verify()) OP("ecdsa_sign", op_ecdsa_sign()) OP("ecdsa_sign_rec", op_ecdsa_sign_rec())
    OP("ecdsa_recover", op_ecdsa_recover()) OP("sig_normalize", op_sig_normalize())
    OP("sig_parse_compact", op_sig_parse_compact()) OP("rec_parse_compact", op_rec_parse_compact())
    OP("sig_parse_der", op_sig_parse_der()) OP("sig_ser_der", op_sig_ser_der())
    OP("pubkey_parse", op_pubkey_parse()) OP("pubkey_serialize", op_pubkey_serialize())
    OP("xonly_parse", op_xonly_parse()) OP("xonly_serialize", op_xonly_serialize())
    OP("seckey_verify", op_seckey_verify()) OP("pubkey_create", op_pubkey_create())
    OP("seckey_negate", op_seckey_negate()) OP("pubkey_negate", op_pubkey_negate())
    OP("seckey_tweak_add", op_seckey_tweak(0)) OP("seckey_tweak_mul", op_seckey_tweak(1))
    OP("pubkey_tweak_add", op_pubkey_tweak(0)) OP("pubkey_tweak_mul", op_pubkey_tweak(1))
    OP("pubkey_combine", op_pubkey_combine()) OP("pubkey_cmp", op_pubkey_cmp(0)) OP("xonly_cmp", op_pubkey_cmp(1))
    OP("xonly_from_pubkey", op_xonly_from_pubkey()) OP("xonly_tweak_add", op_xonly_tweak_add())
    OP("xonly_tweak_add_check", op_xonly_tweak_add_check())
    OP("keypair_create", op_keypair_create()) OP("keypair_xonly_pub", op_keypair_xonly_pub())
    OP("keypair_xonly_tweak_add", op_keypair_xonly_tweak_add())
    OP("pubkey_sort", op_pubkey_sort()) OP("key_chain", op_key_chain())
    OP("schnorr_sign", op_schnorr_sign()) OP("schnorr_verify", op_schnorr_verify()) OP("nonce_bip340", op_nonce_bip340())
#undef OP
    return 0;
}
