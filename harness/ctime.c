/***********************************************************************
 * Copyright (c) 2020 Gregory Maxwell                                  *
 * Distributed under the MIT software license, see the accompanying    *
 * file COPYING or https://www.opensource.org/licenses/mit-license.php.*
 ***********************************************************************/

#include <stdio.h>
#include <stdlib.h>
#include <string.h>

/* /verif/harness/ctime.c: frozen copy of src/ctime_tests.c (secret-argument list of the maintainers), built as a
 * single translation unit with the library sources of the current working tree, all modules enabled.
 * argv[1]: 0 = fresh context, 1 = context randomized first with a PUBLIC seed, 2 = randomized twice */
#define VALGRIND 1
#define ENABLE_MODULE_ECDH 1
#define ENABLE_MODULE_RECOVERY 1
#define ENABLE_MODULE_EXTRAKEYS 1
#define ENABLE_MODULE_SCHNORRSIG 1
#define ENABLE_MODULE_MUSIG 1
#define ENABLE_MODULE_ELLSWIFT 1
#define ENABLE_MODULE_GENERATOR 1
#define ENABLE_MODULE_RANGEPROOF 1
#define ENABLE_MODULE_WHITELIST 1
#define ENABLE_MODULE_SURJECTIONPROOF 1
#define ENABLE_MODULE_ECDSA_S2C 1
#define ENABLE_MODULE_ECDSA_ADAPTOR 1
#define ENABLE_MODULE_SCHNORRSIG_HALFAGG 1
#define ENABLE_MODULE_BPPP 1
#include "src/secp256k1.c"
#include "src/precomputed_ecmult.c"
#include "src/precomputed_ecmult_gen.c"

#if !SECP256K1_CHECKMEM_ENABLED
#  error "This tool cannot be compiled without memory-checking interface (valgrind or msan)"
#endif

#ifdef ENABLE_MODULE_ECDH
#include "include/secp256k1_ecdh.h"
#endif

#ifdef ENABLE_MODULE_RECOVERY
#include "include/secp256k1_recovery.h"
#endif

#ifdef ENABLE_MODULE_EXTRAKEYS
#include "include/secp256k1_extrakeys.h"
#endif

#ifdef ENABLE_MODULE_SCHNORRSIG
#include "include/secp256k1_schnorrsig.h"
#endif

#ifdef ENABLE_MODULE_MUSIG
#include "include/secp256k1_musig.h"
#endif

#ifdef ENABLE_MODULE_ELLSWIFT
#include "include/secp256k1_ellswift.h"
#endif

#ifdef ENABLE_MODULE_ECDSA_S2C
#include "include/secp256k1_ecdsa_s2c.h"
#endif

#ifdef ENABLE_MODULE_ECDSA_ADAPTOR
#include "include/secp256k1_ecdsa_adaptor.h"
#endif

static void run_tests(secp256k1_context *ctx, unsigned char *key);

int main(int argc, char **argv) {
    int variation = argc > 1 ? atoi(argv[1]) : 0;
    secp256k1_context* ctx;
    unsigned char key[32];
    int ret, i;

    if (!SECP256K1_CHECKMEM_RUNNING()) {
        fprintf(stderr, "This test can only usefully be run inside valgrind because it was not compiled under msan.\n");
        fprintf(stderr, "Usage: valgrind ./ctime_tests (or with Autotools: libtool --mode=execute valgrind ./ctime_tests)\n");
        return EXIT_FAILURE;
    }
    ctx = secp256k1_context_create(SECP256K1_CONTEXT_DECLASSIFY);
    /** In theory, testing with a single secret input should be sufficient:
     *  If control flow depended on secrets the tool would generate an error.
     */
    for (i = 0; i < 32; i++) {
        key[i] = i + 65;
    }
    if (variation >= 1) { unsigned char seed[32] = {42}; CHECK(secp256k1_context_randomize(ctx, seed)); }
    if (variation >= 2) { unsigned char seed[32] = {0xff, 1}; CHECK(secp256k1_context_randomize(ctx, seed)); }

    run_tests(ctx, key);

    /* Test context randomisation. Do this last because it leaves the context
     * tainted. */
    SECP256K1_CHECKMEM_UNDEFINE(key, 32);
    ret = secp256k1_context_randomize(ctx, key);
    SECP256K1_CHECKMEM_DEFINE(&ret, sizeof(ret));
    CHECK(ret);

    secp256k1_context_destroy(ctx);
    return EXIT_SUCCESS;
}

static void run_tests(secp256k1_context *ctx, unsigned char *key) {
    secp256k1_ecdsa_signature signature;
    secp256k1_pubkey pubkey;
    size_t siglen = 74;
    size_t outputlen = 33;
    int i;
    int ret;
    unsigned char msg[32];
    unsigned char sig[74];
    unsigned char spubkey[33];
#ifdef ENABLE_MODULE_RECOVERY
    secp256k1_ecdsa_recoverable_signature recoverable_signature;
    int recid;
#endif
#ifdef ENABLE_MODULE_EXTRAKEYS
    secp256k1_keypair keypair;
#endif
#ifdef ENABLE_MODULE_ELLSWIFT
    unsigned char ellswift[64];
    static const unsigned char prefix[64] = {'t', 'e', 's', 't'};
#endif

    for (i = 0; i < 32; i++) {
        msg[i] = i + 1;
    }

    /* Test keygen. */
    SECP256K1_CHECKMEM_UNDEFINE(key, 32);
    ret = secp256k1_ec_pubkey_create(ctx, &pubkey, key);
    SECP256K1_CHECKMEM_DEFINE(&pubkey, sizeof(secp256k1_pubkey));
    SECP256K1_CHECKMEM_DEFINE(&ret, sizeof(ret));
    CHECK(ret);
    CHECK(secp256k1_ec_pubkey_serialize(ctx, spubkey, &outputlen, &pubkey, SECP256K1_EC_COMPRESSED) == 1);

    /* Test signing. */
    SECP256K1_CHECKMEM_UNDEFINE(key, 32);
    ret = secp256k1_ecdsa_sign(ctx, &signature, msg, key, NULL, NULL);
    SECP256K1_CHECKMEM_DEFINE(&signature, sizeof(secp256k1_ecdsa_signature));
    SECP256K1_CHECKMEM_DEFINE(&ret, sizeof(ret));
    CHECK(ret);
    CHECK(secp256k1_ecdsa_signature_serialize_der(ctx, sig, &siglen, &signature));

#ifdef ENABLE_MODULE_ECDH
    /* Test ECDH. */
    SECP256K1_CHECKMEM_UNDEFINE(key, 32);
    ret = secp256k1_ecdh(ctx, msg, &pubkey, key, NULL, NULL);
    SECP256K1_CHECKMEM_DEFINE(&ret, sizeof(ret));
    CHECK(ret == 1);
#endif

#ifdef ENABLE_MODULE_RECOVERY
    /* Test signing a recoverable signature. */
    SECP256K1_CHECKMEM_UNDEFINE(key, 32);
    ret = secp256k1_ecdsa_sign_recoverable(ctx, &recoverable_signature, msg, key, NULL, NULL);
    SECP256K1_CHECKMEM_DEFINE(&recoverable_signature, sizeof(recoverable_signature));
    SECP256K1_CHECKMEM_DEFINE(&ret, sizeof(ret));
    CHECK(ret);
    CHECK(secp256k1_ecdsa_recoverable_signature_serialize_compact(ctx, sig, &recid, &recoverable_signature));
    CHECK(recid >= 0 && recid <= 3);
#endif

    SECP256K1_CHECKMEM_UNDEFINE(key, 32);
    ret = secp256k1_ec_seckey_verify(ctx, key);
    SECP256K1_CHECKMEM_DEFINE(&ret, sizeof(ret));
    CHECK(ret == 1);

    SECP256K1_CHECKMEM_UNDEFINE(key, 32);
    ret = secp256k1_ec_seckey_negate(ctx, key);
    SECP256K1_CHECKMEM_DEFINE(&ret, sizeof(ret));
    CHECK(ret == 1);

    SECP256K1_CHECKMEM_UNDEFINE(key, 32);
    SECP256K1_CHECKMEM_UNDEFINE(msg, 32);
    ret = secp256k1_ec_seckey_tweak_add(ctx, key, msg);
    SECP256K1_CHECKMEM_DEFINE(&ret, sizeof(ret));
    CHECK(ret == 1);

    SECP256K1_CHECKMEM_UNDEFINE(key, 32);
    SECP256K1_CHECKMEM_UNDEFINE(msg, 32);
    ret = secp256k1_ec_seckey_tweak_mul(ctx, key, msg);
    SECP256K1_CHECKMEM_DEFINE(&ret, sizeof(ret));
    CHECK(ret == 1);

    /* Test keypair_create and keypair_xonly_tweak_add. */
#ifdef ENABLE_MODULE_EXTRAKEYS
    SECP256K1_CHECKMEM_UNDEFINE(key, 32);
    ret = secp256k1_keypair_create(ctx, &keypair, key);
    SECP256K1_CHECKMEM_DEFINE(&ret, sizeof(ret));
    CHECK(ret == 1);

    /* The tweak is not treated as a secret in keypair_tweak_add */
    SECP256K1_CHECKMEM_DEFINE(msg, 32);
    ret = secp256k1_keypair_xonly_tweak_add(ctx, &keypair, msg);
    SECP256K1_CHECKMEM_DEFINE(&ret, sizeof(ret));
    CHECK(ret == 1);

    SECP256K1_CHECKMEM_UNDEFINE(key, 32);
    SECP256K1_CHECKMEM_UNDEFINE(&keypair, sizeof(keypair));
    ret = secp256k1_keypair_sec(ctx, key, &keypair);
    SECP256K1_CHECKMEM_DEFINE(&ret, sizeof(ret));
    CHECK(ret == 1);
#endif

#ifdef ENABLE_MODULE_SCHNORRSIG
    SECP256K1_CHECKMEM_UNDEFINE(key, 32);
    ret = secp256k1_keypair_create(ctx, &keypair, key);
    SECP256K1_CHECKMEM_DEFINE(&ret, sizeof(ret));
    CHECK(ret == 1);
    ret = secp256k1_schnorrsig_sign32(ctx, sig, msg, &keypair, NULL);
    SECP256K1_CHECKMEM_DEFINE(&ret, sizeof(ret));
    CHECK(ret == 1);
#endif

#ifdef ENABLE_MODULE_MUSIG
    {
        secp256k1_pubkey pk;
        const secp256k1_pubkey *pk_ptr[1];
        secp256k1_xonly_pubkey agg_pk;
        unsigned char session_secrand[32];
        uint64_t nonrepeating_cnt = 0;
        secp256k1_musig_secnonce secnonce;
        secp256k1_musig_pubnonce pubnonce;
        const secp256k1_musig_pubnonce *pubnonce_ptr[1];
        secp256k1_musig_aggnonce aggnonce;
        secp256k1_musig_keyagg_cache cache;
        secp256k1_musig_session session;
        secp256k1_musig_partial_sig partial_sig;
        const secp256k1_musig_partial_sig *partial_sig_ptr[1];
        unsigned char extra_input[32];
        unsigned char sec_adaptor[32];
        secp256k1_pubkey adaptor;
        unsigned char pre_sig[64];
        int nonce_parity;

        pk_ptr[0] = &pk;
        pubnonce_ptr[0] = &pubnonce;
        SECP256K1_CHECKMEM_DEFINE(key, 32);
        memcpy(session_secrand, key, sizeof(session_secrand));
        session_secrand[0] = session_secrand[0] + 1;
        memcpy(extra_input, key, sizeof(extra_input));
        extra_input[0] = extra_input[0] + 2;
        memcpy(sec_adaptor, key, sizeof(sec_adaptor));
        sec_adaptor[0] = extra_input[0] + 3;
        partial_sig_ptr[0] = &partial_sig;

        CHECK(secp256k1_keypair_create(ctx, &keypair, key));
        CHECK(secp256k1_keypair_pub(ctx, &pk, &keypair));
        CHECK(secp256k1_musig_pubkey_agg(ctx, &agg_pk, &cache, pk_ptr, 1));
        CHECK(secp256k1_ec_pubkey_create(ctx, &adaptor, sec_adaptor));

        SECP256K1_CHECKMEM_UNDEFINE(key, 32);
        SECP256K1_CHECKMEM_UNDEFINE(session_secrand, sizeof(session_secrand));
        SECP256K1_CHECKMEM_UNDEFINE(extra_input, sizeof(extra_input));
        SECP256K1_CHECKMEM_UNDEFINE(sec_adaptor, sizeof(sec_adaptor));
        ret = secp256k1_musig_nonce_gen(ctx, &secnonce, &pubnonce, session_secrand, key, &pk, msg, &cache, extra_input);
        SECP256K1_CHECKMEM_DEFINE(&ret, sizeof(ret));
        CHECK(ret == 1);
        ret = secp256k1_musig_nonce_gen_counter(ctx, &secnonce, &pubnonce, nonrepeating_cnt, &keypair, msg, &cache, extra_input);
        SECP256K1_CHECKMEM_DEFINE(&ret, sizeof(ret));
        CHECK(ret == 1);

        CHECK(secp256k1_musig_nonce_agg(ctx, &aggnonce, pubnonce_ptr, 1));
        /* Make sure that previous tests don't undefine msg. It's not used as a secret here. */
        SECP256K1_CHECKMEM_DEFINE(msg, sizeof(msg));
        CHECK(secp256k1_musig_nonce_process(ctx, &session, &aggnonce, msg, &cache, &adaptor) == 1);

        ret = secp256k1_keypair_create(ctx, &keypair, key);
        SECP256K1_CHECKMEM_DEFINE(&ret, sizeof(ret));
        CHECK(ret == 1);
        ret = secp256k1_musig_partial_sign(ctx, &partial_sig, &secnonce, &keypair, &cache, &session);
        SECP256K1_CHECKMEM_DEFINE(&ret, sizeof(ret));
        CHECK(ret == 1);

        SECP256K1_CHECKMEM_DEFINE(&partial_sig, sizeof(partial_sig));
        CHECK(secp256k1_musig_partial_sig_agg(ctx, pre_sig, &session, partial_sig_ptr, 1));
        SECP256K1_CHECKMEM_DEFINE(pre_sig, sizeof(pre_sig));

        CHECK(secp256k1_musig_nonce_parity(ctx, &nonce_parity, &session));
        ret = secp256k1_musig_adapt(ctx, sig, pre_sig, sec_adaptor, nonce_parity);
        SECP256K1_CHECKMEM_DEFINE(&ret, sizeof(ret));
        CHECK(ret == 1);
        ret = secp256k1_musig_extract_adaptor(ctx, sec_adaptor, sig, pre_sig, nonce_parity);
        SECP256K1_CHECKMEM_DEFINE(&ret, sizeof(ret));
        CHECK(ret == 1);
    }
#endif

#ifdef ENABLE_MODULE_ELLSWIFT
    SECP256K1_CHECKMEM_UNDEFINE(key, 32);
    ret = secp256k1_ellswift_create(ctx, ellswift, key, NULL);
    SECP256K1_CHECKMEM_DEFINE(&ret, sizeof(ret));
    CHECK(ret == 1);

    SECP256K1_CHECKMEM_UNDEFINE(key, 32);
    ret = secp256k1_ellswift_create(ctx, ellswift, key, ellswift);
    SECP256K1_CHECKMEM_DEFINE(&ret, sizeof(ret));
    CHECK(ret == 1);

    for (i = 0; i < 2; i++) {
        SECP256K1_CHECKMEM_UNDEFINE(key, 32);
        SECP256K1_CHECKMEM_DEFINE(&ellswift, sizeof(ellswift));
        ret = secp256k1_ellswift_xdh(ctx, msg, ellswift, ellswift, key, i, secp256k1_ellswift_xdh_hash_function_bip324, NULL);
        SECP256K1_CHECKMEM_DEFINE(&ret, sizeof(ret));
        CHECK(ret == 1);

        SECP256K1_CHECKMEM_UNDEFINE(key, 32);
        SECP256K1_CHECKMEM_DEFINE(&ellswift, sizeof(ellswift));
        ret = secp256k1_ellswift_xdh(ctx, msg, ellswift, ellswift, key, i, secp256k1_ellswift_xdh_hash_function_prefix, (void *)prefix);
        SECP256K1_CHECKMEM_DEFINE(&ret, sizeof(ret));
        CHECK(ret == 1);
    }
#endif

#ifdef ENABLE_MODULE_ECDSA_S2C
    {
        unsigned char s2c_data[32] = {0};
        unsigned char s2c_data_comm[32] = {0};
        secp256k1_ecdsa_s2c_opening s2c_opening;

        SECP256K1_CHECKMEM_UNDEFINE(key, 32);
        SECP256K1_CHECKMEM_UNDEFINE(s2c_data, 32);
        ret = secp256k1_ecdsa_s2c_sign(ctx, &signature, &s2c_opening, msg, key, s2c_data);
        SECP256K1_CHECKMEM_DEFINE(&ret, sizeof(ret));
        CHECK(ret == 1);

        SECP256K1_CHECKMEM_UNDEFINE(s2c_data, 32);
        ret = secp256k1_ecdsa_anti_exfil_host_commit(ctx, s2c_data_comm, s2c_data);
        SECP256K1_CHECKMEM_DEFINE(&ret, sizeof(ret));
        CHECK(ret == 1);

        SECP256K1_CHECKMEM_UNDEFINE(key, 32);
        SECP256K1_CHECKMEM_UNDEFINE(s2c_data, 32);
        ret = secp256k1_ecdsa_anti_exfil_signer_commit(ctx, &s2c_opening, msg, key, s2c_data);
        SECP256K1_CHECKMEM_DEFINE(&ret, sizeof(ret));
        CHECK(ret == 1);
    }
#endif

#ifdef ENABLE_MODULE_ECDSA_ADAPTOR
    {
        unsigned char adaptor_sig[162];
        unsigned char deckey[32];
        unsigned char expected_deckey[32];
        secp256k1_pubkey enckey;

        for (i = 0; i < 32; i++) {
            deckey[i] = i + 2;
        }

        ret = secp256k1_ec_pubkey_create(ctx, &enckey, deckey);
        CHECK(ret == 1);

        SECP256K1_CHECKMEM_UNDEFINE(key, 32);
        ret = secp256k1_ecdsa_adaptor_encrypt(ctx, adaptor_sig, key, &enckey, msg, NULL, NULL);
        SECP256K1_CHECKMEM_DEFINE(adaptor_sig, sizeof(adaptor_sig));
        SECP256K1_CHECKMEM_DEFINE(&ret, sizeof(ret));
        CHECK(ret == 1);

        SECP256K1_CHECKMEM_UNDEFINE(deckey, 32);
        ret = secp256k1_ecdsa_adaptor_decrypt(ctx, &signature, deckey, adaptor_sig);
        SECP256K1_CHECKMEM_DEFINE(&ret, sizeof(ret));
        CHECK(ret == 1);

        SECP256K1_CHECKMEM_UNDEFINE(&signature, 32);
        ret = secp256k1_ecdsa_adaptor_recover(ctx, expected_deckey, &signature, adaptor_sig, &enckey);
        SECP256K1_CHECKMEM_DEFINE(expected_deckey, sizeof(expected_deckey));
        SECP256K1_CHECKMEM_DEFINE(&ret, sizeof(ret));
        CHECK(ret == 1);

        SECP256K1_CHECKMEM_DEFINE(deckey, sizeof(deckey));
        ret = secp256k1_memcmp_var(deckey, expected_deckey, sizeof(expected_deckey));
        SECP256K1_CHECKMEM_DEFINE(&ret, sizeof(ret));
        CHECK(ret == 0);
    }
#endif
}
