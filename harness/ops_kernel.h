/* ops_kernel.h: `k_run <set>.<def> <in>* / <out>*` runs the REAL C function that tools/c2lean_k.py translated,
 * on the same concrete limb-level inputs as the MiniC interpreter: validates the translation. */
#if defined(SECP256K1_WIDEMUL_INT128)

static int k_find(const char *name, char **vals) {
    int i; size_t l = strlen(name);
    for (i = 1; i < g_argc; i++) { const char *s = A(i)->s; if (!strcmp(s, "/")) break; if (!strncmp(s, name, l) && s[l] == '=') { *vals = (char*)s + l + 1; return 1; } }
    return 0;
}
static int k_u64s(const char *name, uint64_t *out, int n) {
    char *v; int i; char *p;
    if (!k_find(name, &v)) return 0;
    p = v;
    for (i = 0; i < n; i++) { out[i] = strtoull(p, &p, 16); if (i + 1 < n) { if (*p != ',') return 0; p++; } }
    return 1;
}
static void out_u64s(const uint64_t *v, int n) {
    char buf[32 * 20]; int i; size_t l = 0;
    for (i = 0; i < n; i++) l += (size_t)snprintf(buf + l, sizeof buf - l, "%s%llx", i ? "," : "", (unsigned long long)v[i]);
    out_str(buf);
}
static int op_k_run(void) {
    const char *f; uint64_t a[5], b[5], r[5], s[1];
    if (g_argc < 1) return -1;
    f = A(0)->s;
#if defined(SECP256K1_INT128_NATIVE)
    if (!strcmp(f, "field5x52.fe_mul_inner") || !strcmp(f, "ct.fe_mul_inner")) {
#else
    if (!strcmp(f, "field5x52.fe_mul_inner_struct")) {
#endif
        if (!k_u64s("a", a, 5) || !k_u64s("b", b, 5)) return -1;
        secp256k1_fe_mul_inner(r, a, b); out_u64s(r, 5); return 1;
    }
#if defined(SECP256K1_INT128_NATIVE)
    if (!strcmp(f, "field5x52.fe_sqr_inner") || !strcmp(f, "ct.fe_sqr_inner")) {
#else
    if (!strcmp(f, "field5x52.fe_sqr_inner_struct")) {
#endif
        if (!k_u64s("a", a, 5)) return -1;
        secp256k1_fe_sqr_inner(r, a); out_u64s(r, 5); return 1;
    }
#if defined(SECP256K1_INT128_NATIVE)
    {
    secp256k1_fe fr, fa; secp256k1_scalar sr, sa;
    if (!strcmp(f, "field5x52.fe_normalize") || !strcmp(f, "ct.fe_normalize")) { if (!k_u64s("r.n", fr.n, 5)) return -1; secp256k1_fe_impl_normalize(&fr); out_u64s(fr.n, 5); return 1; }
    if (!strcmp(f, "field5x52.fe_normalize_weak")) { if (!k_u64s("r.n", fr.n, 5)) return -1; secp256k1_fe_impl_normalize_weak(&fr); out_u64s(fr.n, 5); return 1; }
    if (!strcmp(f, "field5x52.fe_half") || !strcmp(f, "ct.fe_half")) { if (!k_u64s("r.n", fr.n, 5)) return -1; secp256k1_fe_impl_half(&fr); out_u64s(fr.n, 5); return 1; }
    if (!strcmp(f, "field5x52.fe_add")) { if (!k_u64s("r.n", fr.n, 5) || !k_u64s("a.n", fa.n, 5)) return -1; secp256k1_fe_impl_add(&fr, &fa); out_u64s(fr.n, 5); return 1; }
    if (!strcmp(f, "field5x52.fe_mul_int")) { if (!k_u64s("r.n", fr.n, 5) || !k_u64s("a", s, 1)) return -1; secp256k1_fe_impl_mul_int_unchecked(&fr, (int)s[0]); out_u64s(fr.n, 5); return 1; }
    if (!strcmp(f, "ct.fe_negate")) { if (!k_u64s("a.n", fa.n, 5) || !k_u64s("m", s, 1)) return -1; secp256k1_fe_impl_negate_unchecked(&fr, &fa, (int)s[0]); out_u64s(fr.n, 5); return 1; }
    if (!strcmp(f, "ct.fe_normalizes_to_zero")) { if (!k_u64s("r.n", fr.n, 5)) return -1; out_int(secp256k1_fe_impl_normalizes_to_zero(&fr)); return 1; }
    if (!strcmp(f, "ct.fe_cmov")) { if (!k_u64s("r.n", fr.n, 5) || !k_u64s("a.n", fa.n, 5) || !k_u64s("flag", s, 1)) return -1; secp256k1_fe_impl_cmov(&fr, &fa, (int)s[0]); out_u64s(fr.n, 5); return 1; }
    if (!strcmp(f, "ct.scalar_cmov")) { if (!k_u64s("r.d", sr.d, 4) || !k_u64s("a.d", sa.d, 4) || !k_u64s("flag", s, 1)) return -1; secp256k1_scalar_cmov(&sr, &sa, (int)s[0]); out_u64s(sr.d, 4); return 1; }
    if (!strcmp(f, "ct.scalar_cond_negate")) { int rv; if (!k_u64s("r.d", sr.d, 4) || !k_u64s("flag", s, 1)) return -1; rv = secp256k1_scalar_cond_negate(&sr, (int)s[0]); out_u64s(sr.d, 4); out_str(rv == 1 ? "1" : "ffffffff"); return 1; }
    if (!strcmp(f, "ct.scalar_negate")) { if (!k_u64s("a.d", sa.d, 4)) return -1; secp256k1_scalar_negate(&sr, &sa); out_u64s(sr.d, 4); return 1; }
    if (!strcmp(f, "ct.scalar_add")) { secp256k1_scalar sb; int ov; if (!k_u64s("a.d", sa.d, 4) || !k_u64s("b.d", sb.d, 4)) return -1; ov = secp256k1_scalar_add(&sr, &sa, &sb); out_u64s(sr.d, 4); out_int(ov); return 1; }
    if (!strcmp(f, "ct.scalar_is_high")) { if (!k_u64s("a.d", sa.d, 4)) return -1; out_int(secp256k1_scalar_is_high(&sa)); return 1; }
    if (!strcmp(f, "ct.scalar_check_overflow")) { if (!k_u64s("a.d", sa.d, 4)) return -1; out_int(secp256k1_scalar_check_overflow(&sa)); return 1; }
    if (!strcmp(f, "ct.scalar_is_zero")) { if (!k_u64s("a.d", sa.d, 4)) return -1; out_int(secp256k1_scalar_is_zero(&sa)); return 1; }
    if (!strcmp(f, "ct.int_cmov")) { int r0, a0; uint64_t x[1], y[1]; if (!k_u64s("r", x, 1) || !k_u64s("a", y, 1) || !k_u64s("flag", s, 1)) return -1; r0 = (int)x[0]; a0 = (int)y[0]; secp256k1_int_cmov(&r0, &a0, (int)s[0]); { uint64_t o[1]; o[0] = (uint32_t)r0; out_u64s(o, 1); } return 1; }
    }
#endif
    out_str("skip");
    return 1;
}
static int ops_kernel(const char *op) { if (!strcmp(op, "k_run")) return op_k_run(); return 0; }
#else
static int ops_kernel(const char *op) { if (!strcmp(op, "k_run")) { out_str("skip"); return 1; } return 0; }
#endif
