/* ops_kernel.h: `k_run <set>.<def> <in>* / <out>*` runs the REAL C function that tools/c2lean_k.py translated,
 * on the same concrete limb-level inputs as the MiniC interpreter: validates the translation.
 * 128-bit builds answer for the sets field5x52 / scalar4x64 / ct (and the *_struct definitions when the emulated
 * int128 is compiled in); the int64 build answers for field10x26 / scalar8x32 / ct32; anything else prints `skip`. */
#if defined(SECP256K1_WIDEMUL_INT128)
typedef uint64_t klimb;
#define KFE 5
#define KSC 4
#define KSET_F "field5x52"
#define KSET_S "scalar4x64"
#define KSET_C "ct"
#else
typedef uint32_t klimb;
#define KFE 10
#define KSC 8
#define KSET_F "field10x26"
#define KSET_S "scalar8x32"
#define KSET_C "ct32"
#endif

static int k_find(const char *name, char **vals) {
    int i; size_t l = strlen(name);
    for (i = 1; i < g_argc; i++) { const char *s = A(i)->s; if (!strcmp(s, "/")) break; if (!strncmp(s, name, l) && s[l] == '=') { *vals = (char*)s + l + 1; return 1; } }
    return 0;
}
static int k_limbs(const char *name, klimb *out, int n) {
    char *v; int i; char *p;
    if (!k_find(name, &v)) return 0;
    p = v;
    for (i = 0; i < n; i++) { out[i] = (klimb)strtoull(p, &p, 16); if (i + 1 < n) { if (*p != ',') return 0; p++; } }
    return 1;
}
static void out_limbs(const klimb *v, int n) {
    char buf[40 * 20]; int i; size_t l = 0;
    for (i = 0; i < n; i++) l += (size_t)snprintf(buf + l, sizeof buf - l, "%s%llx", i ? "," : "", (unsigned long long)v[i]);
    out_str(buf);
}
static int k_fe(const char *pre, const char *fld, secp256k1_fe *fe) {
    char nm[64]; snprintf(nm, sizeof nm, "%s.%s.n", pre, fld); memset(fe, 0, sizeof *fe); return k_limbs(nm, fe->n, KFE);
}
static int k_int(const char *pre, const char *fld, int *v) {
    char nm[64]; klimb x[1]; snprintf(nm, sizeof nm, "%s.%s", pre, fld); if (!k_limbs(nm, x, 1)) return 0; *v = (int)x[0]; return 1;
}
static int k_gej(const char *pre, secp256k1_gej *p) { return k_fe(pre, "x", &p->x) && k_fe(pre, "y", &p->y) && k_fe(pre, "z", &p->z) && k_int(pre, "infinity", &p->infinity); }
static int k_ge(const char *pre, secp256k1_ge *p) { return k_fe(pre, "x", &p->x) && k_fe(pre, "y", &p->y) && k_int(pre, "infinity", &p->infinity); }
static void k_out_gej(const secp256k1_gej *p) { klimb i[1]; out_limbs(p->x.n, KFE); out_limbs(p->y.n, KFE); out_limbs(p->z.n, KFE); i[0] = (klimb)p->infinity; out_limbs(i, 1); }
/* does `f` name <set>.<def> ? */
static int k_is(const char *f, const char *set, const char *def) {
    size_t l = strlen(set);
    return !strncmp(f, set, l) && f[l] == '.' && !strcmp(f + l + 1, def);
}
static int op_k_run(void) {
    const char *f; klimb a[KFE], b[KFE], r[KFE], s[1]; klimb l16[2 * KSC];
    secp256k1_fe fr, fa; secp256k1_scalar sr, sa, sb;
    if (g_argc < 1) return -1;
    f = A(0)->s;
#if defined(SECP256K1_WIDEMUL_INT128) && !defined(SECP256K1_INT128_NATIVE)
    /* emulated int128: only the two multiplication kernels are translated for this configuration */
    if (k_is(f, KSET_F, "fe_mul_inner_struct")) { if (!k_limbs("a", a, KFE) || !k_limbs("b", b, KFE)) return -1; secp256k1_fe_mul_inner(r, a, b); out_limbs(r, KFE); return 1; }
    if (k_is(f, KSET_F, "fe_sqr_inner_struct")) { if (!k_limbs("a", a, KFE)) return -1; secp256k1_fe_sqr_inner(r, a); out_limbs(r, KFE); return 1; }
    {   /* the emulated 128-bit integer itself */
        klimb x[1], y[1], o[2]; secp256k1_uint128 u;
        if (k_is(f, "int128struct", "umul128")) { uint64_t hi; if (!k_limbs("a", x, 1) || !k_limbs("b", y, 1)) return -1; o[0] = secp256k1_umul128(x[0], y[0], &hi); o[1] = hi; out_limbs(&o[0], 1); out_limbs(&o[1], 1); return 1; }
        if (k_is(f, "int128struct", "u128_mul")) { if (!k_limbs("a", x, 1) || !k_limbs("b", y, 1)) return -1; secp256k1_u128_mul(&u, x[0], y[0]); o[0] = u.lo; o[1] = u.hi; out_limbs(&o[0], 1); out_limbs(&o[1], 1); return 1; }
        if (k_is(f, "int128struct", "u128_accum_mul")) { klimb lo[1], hi[1]; if (!k_limbs("a", x, 1) || !k_limbs("b", y, 1) || !k_limbs("r.lo", lo, 1) || !k_limbs("r.hi", hi, 1)) return -1; u.lo = lo[0]; u.hi = hi[0]; secp256k1_u128_accum_mul(&u, x[0], y[0]); o[0] = u.lo; o[1] = u.hi; out_limbs(&o[0], 1); out_limbs(&o[1], 1); return 1; }
        if (k_is(f, "int128struct", "u128_accum_u64")) { klimb lo[1], hi[1]; if (!k_limbs("a", x, 1) || !k_limbs("r.lo", lo, 1) || !k_limbs("r.hi", hi, 1)) return -1; u.lo = lo[0]; u.hi = hi[0]; secp256k1_u128_accum_u64(&u, x[0]); o[0] = u.lo; o[1] = u.hi; out_limbs(&o[0], 1); out_limbs(&o[1], 1); return 1; }
        if (k_is(f, "int128struct", "u128_rshift")) { klimb lo[1], hi[1]; if (!k_limbs("n", x, 1) || !k_limbs("r.lo", lo, 1) || !k_limbs("r.hi", hi, 1) || x[0] >= 128) return -1; u.lo = lo[0]; u.hi = hi[0]; secp256k1_u128_rshift(&u, (unsigned int)x[0]); o[0] = u.lo; o[1] = u.hi; out_limbs(&o[0], 1); out_limbs(&o[1], 1); return 1; }
    }
    out_str("skip");
    return 1;
#else
    if (k_is(f, KSET_F, "fe_mul_inner") || k_is(f, KSET_C, "fe_mul_inner")) { if (!k_limbs("a", a, KFE) || !k_limbs("b", b, KFE)) return -1; secp256k1_fe_mul_inner(r, a, b); out_limbs(r, KFE); return 1; }
    if (k_is(f, KSET_F, "fe_sqr_inner") || k_is(f, KSET_C, "fe_sqr_inner")) { if (!k_limbs("a", a, KFE)) return -1; secp256k1_fe_sqr_inner(r, a); out_limbs(r, KFE); return 1; }
    if (k_is(f, KSET_F, "fe_normalize") || k_is(f, KSET_C, "fe_normalize")) { if (!k_limbs("r.n", fr.n, KFE)) return -1; secp256k1_fe_impl_normalize(&fr); out_limbs(fr.n, KFE); return 1; }
    if (k_is(f, KSET_F, "fe_normalize_weak")) { if (!k_limbs("r.n", fr.n, KFE)) return -1; secp256k1_fe_impl_normalize_weak(&fr); out_limbs(fr.n, KFE); return 1; }
    if (k_is(f, KSET_F, "fe_half") || k_is(f, KSET_C, "fe_half")) { if (!k_limbs("r.n", fr.n, KFE)) return -1; secp256k1_fe_impl_half(&fr); out_limbs(fr.n, KFE); return 1; }
    if (k_is(f, KSET_F, "fe_add")) { if (!k_limbs("r.n", fr.n, KFE) || !k_limbs("a.n", fa.n, KFE)) return -1; secp256k1_fe_impl_add(&fr, &fa); out_limbs(fr.n, KFE); return 1; }
    if (k_is(f, KSET_F, "fe_mul_int")) { if (!k_limbs("r.n", fr.n, KFE) || !k_limbs("a", s, 1)) return -1; secp256k1_fe_impl_mul_int_unchecked(&fr, (int)s[0]); out_limbs(fr.n, KFE); return 1; }
    if (k_is(f, KSET_F, "fe_negate") || k_is(f, KSET_C, "fe_negate")) { if (!k_limbs("a.n", fa.n, KFE) || !k_limbs("m", s, 1)) return -1; secp256k1_fe_impl_negate_unchecked(&fr, &fa, (int)s[0]); out_limbs(fr.n, KFE); return 1; }
    if (k_is(f, KSET_C, "fe_normalizes_to_zero")) { if (!k_limbs("r.n", fr.n, KFE)) return -1; out_int(secp256k1_fe_impl_normalizes_to_zero(&fr)); return 1; }
    if (k_is(f, KSET_C, "fe_cmov")) { if (!k_limbs("r.n", fr.n, KFE) || !k_limbs("a.n", fa.n, KFE) || !k_limbs("flag", s, 1)) return -1; secp256k1_fe_impl_cmov(&fr, &fa, (int)s[0]); out_limbs(fr.n, KFE); return 1; }
    if (k_is(f, KSET_C, "scalar_cmov")) { if (!k_limbs("r.d", sr.d, KSC) || !k_limbs("a.d", sa.d, KSC) || !k_limbs("flag", s, 1)) return -1; secp256k1_scalar_cmov(&sr, &sa, (int)s[0]); out_limbs(sr.d, KSC); return 1; }
    if (k_is(f, KSET_C, "scalar_cond_negate")) { int rv; if (!k_limbs("r.d", sr.d, KSC) || !k_limbs("flag", s, 1)) return -1; rv = secp256k1_scalar_cond_negate(&sr, (int)s[0]); out_limbs(sr.d, KSC); out_str(rv == 1 ? "1" : "ffffffff"); return 1; }
    if (k_is(f, KSET_C, "scalar_negate") || k_is(f, KSET_S, "scalar_negate")) { if (!k_limbs("a.d", sa.d, KSC)) return -1; secp256k1_scalar_negate(&sr, &sa); out_limbs(sr.d, KSC); return 1; }
    if (k_is(f, KSET_C, "scalar_add") || k_is(f, KSET_S, "scalar_add")) { int ov; if (!k_limbs("a.d", sa.d, KSC) || !k_limbs("b.d", sb.d, KSC)) return -1; ov = secp256k1_scalar_add(&sr, &sa, &sb); out_limbs(sr.d, KSC); out_int(ov); return 1; }
    if (k_is(f, KSET_C, "scalar_is_high")) { if (!k_limbs("a.d", sa.d, KSC)) return -1; out_int(secp256k1_scalar_is_high(&sa)); return 1; }
    if (k_is(f, KSET_C, "scalar_check_overflow")) { if (!k_limbs("a.d", sa.d, KSC)) return -1; out_int(secp256k1_scalar_check_overflow(&sa)); return 1; }
    if (k_is(f, KSET_C, "scalar_is_zero")) { if (!k_limbs("a.d", sa.d, KSC)) return -1; out_int(secp256k1_scalar_is_zero(&sa)); return 1; }
    if (k_is(f, KSET_C, "int_cmov")) { int r0, a0; klimb x[1], y[1]; if (!k_limbs("r", x, 1) || !k_limbs("a", y, 1) || !k_limbs("flag", s, 1)) return -1; r0 = (int)x[0]; a0 = (int)y[0]; secp256k1_int_cmov(&r0, &a0, (int)s[0]); { klimb o[1]; o[0] = (klimb)(uint32_t)r0; out_limbs(o, 1); } return 1; }
    if (k_is(f, KSET_S, "scalar_mul_512")) { if (!k_limbs("a.d", sa.d, KSC) || !k_limbs("b.d", sb.d, KSC)) return -1; secp256k1_scalar_mul_512(l16, &sa, &sb); out_limbs(l16, 2 * KSC); return 1; }
    if (k_is(f, KSET_S, "scalar_reduce_512")) { if (!k_limbs("l", l16, 2 * KSC)) return -1; secp256k1_scalar_reduce_512(&sr, l16); out_limbs(sr.d, KSC); return 1; }
    if (k_is(f, KSET_S, "scalar_mul")) { if (!k_limbs("a.d", sa.d, KSC) || !k_limbs("b.d", sb.d, KSC)) return -1; secp256k1_scalar_mul(&sr, &sa, &sb); out_limbs(sr.d, KSC); return 1; }
    if (k_is(f, KSET_S, "scalar_mul_shift_var")) { klimb sh[1]; if (!k_limbs("a.d", sa.d, KSC) || !k_limbs("b.d", sb.d, KSC) || !k_limbs("shift", sh, 1) || sh[0] < 256 || sh[0] > 512) return -1; secp256k1_scalar_mul_shift_var(&sr, &sa, &sb, (unsigned int)sh[0]); out_limbs(sr.d, KSC); return 1; }
    if (k_is(f, KSET_S, "scalar_half")) { if (!k_limbs("a.d", sa.d, KSC)) return -1; secp256k1_scalar_half(&sr, &sa); out_limbs(sr.d, KSC); return 1; }
    if (k_is(f, KSET_S, "scalar_cadd_bit")) { klimb bit[1]; if (!k_limbs("r.d", sr.d, KSC) || !k_limbs("bit", bit, 1) || !k_limbs("flag", s, 1)) return -1; secp256k1_scalar_cadd_bit(&sr, (unsigned int)bit[0], (int)s[0]); out_limbs(sr.d, KSC); return 1; }
#ifndef VERIFY
    /* group-level primitives (the VERIFY build carries magnitude fields that a limb-level input cannot set consistently) */
    if (k_is(f, KSET_C, "gej_add_ge")) { secp256k1_gej ga, gr; secp256k1_ge gb; if (!k_gej("a", &ga) || !k_ge("b", &gb)) return -1; secp256k1_gej_add_ge(&gr, &ga, &gb); k_out_gej(&gr); return 1; }
    if (k_is(f, KSET_C, "gej_double")) { secp256k1_gej ga, gr; if (!k_gej("a", &ga)) return -1; secp256k1_gej_double(&gr, &ga); k_out_gej(&gr); return 1; }
    if (k_is(f, KSET_C, "gej_neg")) { secp256k1_gej ga, gr; if (!k_gej("a", &ga)) return -1; secp256k1_gej_neg(&gr, &ga); k_out_gej(&gr); return 1; }
    if (k_is(f, KSET_C, "ge_to_storage")) { secp256k1_ge ga; secp256k1_ge_storage st; if (!k_ge("a", &ga)) return -1; secp256k1_ge_to_storage(&st, &ga); out_limbs(st.x.n, (int)(sizeof st.x.n / sizeof st.x.n[0])); out_limbs(st.y.n, (int)(sizeof st.y.n / sizeof st.y.n[0])); return 1; }
    if (k_is(f, KSET_C, "fe_get_b32")) { unsigned char b32[32]; klimb o[32]; int i; if (!k_limbs("a.n", fa.n, KFE)) return -1; secp256k1_fe_impl_get_b32(b32, &fa); for (i = 0; i < 32; i++) o[i] = b32[i]; out_limbs(o, 32); return 1; }
    if (k_is(f, KSET_C, "scalar_mul")) { if (!k_limbs("a.d", sa.d, KSC) || !k_limbs("b.d", sb.d, KSC)) return -1; secp256k1_scalar_mul(&sr, &sa, &sb); out_limbs(sr.d, KSC); return 1; }
#endif
    out_str("skip");
    return 1;
#endif
}
/* f_run group.<def> <name=value>* / <out>* : the REAL group-level function on field values (mode F translation validation).
 * Field inputs are 64 hex digits (loaded with secp256k1_fe_set_b32_mod: magnitude 1), integer inputs short hex. */
static int f_find(const char *name, const char **val) {
    int i; size_t l = strlen(name);
    for (i = 1; i < g_argc; i++) { const char *s = A(i)->s; if (!strcmp(s, "/")) break; if (!strncmp(s, name, l) && s[l] == '=') { *val = s + l + 1; return 1; } }
    return 0;
}
static int f_fe(const char *pre, const char *fld, secp256k1_fe *fe) {
    char nm[64]; const char *v; unsigned char b[32]; int k;
    if (fld) snprintf(nm, sizeof nm, "%s.%s", pre, fld); else snprintf(nm, sizeof nm, "%s", pre);
    if (!f_find(nm, &v) || strlen(v) != 64) return 0;
    for (k = 0; k < 32; k++) b[k] = (unsigned char)(hexval(v[2*k]) * 16 + hexval(v[2*k+1]));
    secp256k1_fe_set_b32_mod(fe, b); secp256k1_fe_normalize_var(fe); return 1;      /* normalized, magnitude 1 (generators pass values < p) */
}
static int f_int(const char *pre, const char *fld, int *out) {
    char nm[64]; const char *v; snprintf(nm, sizeof nm, "%s.%s", pre, fld);
    if (!f_find(nm, &v)) return 0; *out = (int)strtoul(v, NULL, 16); return 1;
}
static int f_gej(const char *pre, secp256k1_gej *p) { memset(p, 0, sizeof *p); return f_fe(pre, "x", &p->x) && f_fe(pre, "y", &p->y) && f_fe(pre, "z", &p->z) && f_int(pre, "infinity", &p->infinity); }
static int f_ge(const char *pre, secp256k1_ge *p) { memset(p, 0, sizeof *p); return f_fe(pre, "x", &p->x) && f_fe(pre, "y", &p->y) && f_int(pre, "infinity", &p->infinity); }
static void f_out_fe(const secp256k1_fe *a) { secp256k1_fe t = *a; unsigned char b[32]; secp256k1_fe_normalize_var(&t); secp256k1_fe_get_b32(b, &t); out_hex(b, 32); }
static void f_out_gej(const secp256k1_gej *p) { f_out_fe(&p->x); f_out_fe(&p->y); f_out_fe(&p->z); out_int(p->infinity); }
static void f_out_ge(const secp256k1_ge *p) { f_out_fe(&p->x); f_out_fe(&p->y); out_int(p->infinity); }
static int op_f_run(void) {
    const char *f; secp256k1_gej ja, jb, jr; secp256k1_ge ga, gb, gr; secp256k1_fe fz, rzr;
    if (g_argc < 1) return -1;
    f = A(0)->s;
    memset(&jr, 0, sizeof jr); memset(&gr, 0, sizeof gr);
    if (!strcmp(f, "group.gej_double")) { if (!f_gej("a", &ja)) return -1; secp256k1_gej_double(&jr, &ja); f_out_gej(&jr); return 1; }
    if (!strcmp(f, "group.gej_double_inplace")) { if (!f_gej("r", &jr)) return -1; secp256k1_gej_double(&jr, &jr); f_out_gej(&jr); return 1; }
    if (!strcmp(f, "group.gej_double_var")) { if (!f_gej("a", &ja)) return -1; secp256k1_gej_double_var(&jr, &ja, &rzr); f_out_gej(&jr); f_out_fe(&rzr); return 1; }
    if (!strcmp(f, "group.gej_add_var")) { if (!f_gej("a", &ja) || !f_gej("b", &jb)) return -1; secp256k1_gej_add_var(&jr, &ja, &jb, NULL); f_out_gej(&jr); return 1; }
    if (!strcmp(f, "group.gej_add_ge_var")) { if (!f_gej("a", &ja) || !f_ge("b", &gb)) return -1; secp256k1_gej_add_ge_var(&jr, &ja, &gb, NULL); f_out_gej(&jr); return 1; }
    if (!strcmp(f, "group.gej_add_ge_var_inplace")) { if (!f_gej("r", &jr) || !f_ge("b", &gb)) return -1; secp256k1_gej_add_ge_var(&jr, &jr, &gb, NULL); f_out_gej(&jr); return 1; }
    if (!strcmp(f, "group.gej_add_zinv_var")) { if (!f_gej("a", &ja) || !f_ge("b", &gb) || !f_fe("bzinv", NULL, &fz)) return -1; secp256k1_gej_add_zinv_var(&jr, &ja, &gb, &fz); f_out_gej(&jr); return 1; }
    if (!strcmp(f, "group.gej_add_ge")) { if (!f_gej("a", &ja) || !f_ge("b", &gb)) return -1; secp256k1_gej_add_ge(&jr, &ja, &gb); f_out_gej(&jr); return 1; }
    if (!strcmp(f, "group.gej_add_ge_inplace")) { if (!f_gej("r", &jr) || !f_ge("b", &gb)) return -1; secp256k1_gej_add_ge(&jr, &jr, &gb); f_out_gej(&jr); return 1; }
    if (!strcmp(f, "group.gej_neg")) { if (!f_gej("a", &ja)) return -1; secp256k1_gej_neg(&jr, &ja); f_out_gej(&jr); return 1; }
    if (!strcmp(f, "group.ge_neg")) { if (!f_ge("a", &ga)) return -1; secp256k1_ge_neg(&gr, &ga); f_out_ge(&gr); return 1; }
    if (!strcmp(f, "group.gej_set_ge")) { if (!f_ge("a", &ga)) return -1; secp256k1_gej_set_ge(&jr, &ga); f_out_gej(&jr); return 1; }
    if (!strcmp(f, "group.gej_rescale")) { if (!f_gej("r", &jr) || !f_fe("s", NULL, &fz)) return -1; secp256k1_gej_rescale(&jr, &fz); f_out_gej(&jr); return 1; }
    if (!strcmp(f, "group.ge_set_gej_zinv")) { if (!f_gej("a", &ja) || !f_fe("zi", NULL, &fz)) return -1; secp256k1_ge_set_gej_zinv(&gr, &ja, &fz); f_out_ge(&gr); return 1; }
    if (!strcmp(f, "group.ge_set_ge_zinv")) { if (!f_ge("a", &ga) || !f_fe("zi", NULL, &fz)) return -1; secp256k1_ge_set_ge_zinv(&gr, &ga, &fz); f_out_ge(&gr); return 1; }
    if (!strcmp(f, "group.gej_eq_x_var")) { if (!f_gej("a", &ja) || !f_fe("x", NULL, &fz)) return -1; out_int(secp256k1_gej_eq_x_var(&fz, &ja)); return 1; }
    if (!strcmp(f, "group.ge_is_valid_var")) { if (!f_ge("a", &ga)) return -1; out_int(secp256k1_ge_is_valid_var(&ga)); return 1; }
    if (!strcmp(f, "group.fe_sqrt")) { secp256k1_fe fa, fr; int rv; if (!f_fe("a", NULL, &fa)) return -1; rv = secp256k1_fe_sqrt(&fr, &fa); f_out_fe(&fr); out_int(rv); return 1; }
    if (!strcmp(f, "group.fe_equal")) { secp256k1_fe fa, fb; if (!f_fe("a", NULL, &fa) || !f_fe("b", NULL, &fb)) return -1; out_int(secp256k1_fe_equal(&fa, &fb)); return 1; }
    if (!strcmp(f, "group.ge_set_xquad")) { secp256k1_fe fx; int rv; if (!f_fe("x", NULL, &fx)) return -1; rv = secp256k1_ge_set_xquad(&gr, &fx); f_out_fe(&gr.x); f_out_fe(&gr.y); out_int(rv); return 1; }
    if (!strcmp(f, "group.ge_set_xo_var")) { secp256k1_fe fx; int rv, odd; const char *v; if (!f_fe("x", NULL, &fx) || !f_find("odd", &v)) return -1; odd = (int)strtoul(v, NULL, 16); rv = secp256k1_ge_set_xo_var(&gr, &fx, odd); f_out_fe(&gr.x); f_out_fe(&gr.y); out_int(rv); return 1; }
#ifdef ENABLE_MODULE_ELLSWIFT
    if (!strcmp(f, "ellswift.ge_x_on_curve_var")) { secp256k1_fe fx; if (!f_fe("x", NULL, &fx)) return -1; out_int(secp256k1_ge_x_on_curve_var(&fx)); return 1; }
    if (!strcmp(f, "ellswift.ge_x_frac_on_curve_var")) { secp256k1_fe fn, fd; if (!f_fe("xn", NULL, &fn) || !f_fe("xd", NULL, &fd)) return -1; out_int(secp256k1_ge_x_frac_on_curve_var(&fn, &fd)); return 1; }
    if (!strcmp(f, "ellswift.xswiftec_frac_var")) { secp256k1_fe fu, ft, xn, xd; if (!f_fe("u", NULL, &fu) || !f_fe("t", NULL, &ft)) return -1; secp256k1_ellswift_xswiftec_frac_var(&xn, &xd, &fu, &ft); f_out_fe(&xn); f_out_fe(&xd); return 1; }
    if (!strcmp(f, "ellswift.xswiftec_var")) { secp256k1_fe fu, ft, fx; if (!f_fe("u", NULL, &fu) || !f_fe("t", NULL, &ft)) return -1; secp256k1_ellswift_xswiftec_var(&fx, &fu, &ft); f_out_fe(&fx); return 1; }
    if (!strcmp(f, "ellswift.swiftec_var")) { secp256k1_fe fu, ft; if (!f_fe("u", NULL, &fu) || !f_fe("t", NULL, &ft)) return -1; secp256k1_ellswift_swiftec_var(&gr, &fu, &ft); f_out_fe(&gr.x); f_out_fe(&gr.y); return 1; }
    if (!strcmp(f, "ellswift.xswiftec_inv_var")) { secp256k1_fe fx, fu, ft; int rv, c; const char *v; if (!f_fe("x_in", NULL, &fx) || !f_fe("u_in", NULL, &fu) || !f_find("c", &v)) return -1; c = (int)strtoul(v, NULL, 16); secp256k1_fe_set_int(&ft, 0); rv = secp256k1_ellswift_xswiftec_inv_var(&ft, &fx, &fu, c); if (rv) f_out_fe(&ft); else out_str("-"); out_int(rv); return 1; }
#endif
#ifdef ENABLE_MODULE_GENERATOR
    if (!strcmp(f, "generator.svdw")) { secp256k1_fe ft; if (!f_fe("t", NULL, &ft)) return -1; shallue_van_de_woestijne(&gr, &ft); f_out_ge(&gr); return 1; }
#endif
    if (!strcmp(f, "ellswift.ge_set_gej")) { if (!f_gej("a", &ja) || ja.infinity) return -1; secp256k1_ge_set_gej(&gr, &ja); f_out_ge(&gr); return 1; }
    if (!strcmp(f, "ellswift.ge_set_gej_var")) { if (!f_gej("a", &ja)) return -1; secp256k1_ge_set_gej_var(&gr, &ja); f_out_ge(&gr); return 1; }
    (void)ga; (void)jb;
    out_str("skip");
    return 1;
}
/* p_run Pecdsa.<def> <positional args> : the REAL scalar/point-level core functions (mode P translation validation) */
static int p_scalar(int i, secp256k1_scalar *s) { if (!A(i)->is_hex || A(i)->n != 32) return 0; secp256k1_scalar_set_b32(s, A(i)->b, NULL); return 1; }
static int op_p_run(void) {
    const char *f; secp256k1_scalar r, s, m, sec, k; secp256k1_ge q; int recid = 0, ret;
    if (g_argc < 1) return -1;
    f = A(0)->s;
    if (!strcmp(f, "Pecdsa.sig_verify")) {
        if (g_argc != 5 || !p_scalar(1, &r) || !p_scalar(2, &s) || !tok_ge(3, &q) || !p_scalar(4, &m) || q.infinity) return -1;
        out_int(secp256k1_ecdsa_sig_verify(&r, &s, &q, &m)); return 1;
    }
    if (!strcmp(f, "Pecdsa.sig_sign")) {
        if (g_argc != 4 || !p_scalar(1, &sec) || !p_scalar(2, &m) || !p_scalar(3, &k) || secp256k1_scalar_is_zero(&k)) return -1;
        ret = secp256k1_ecdsa_sig_sign(&CTX->ecmult_gen_ctx, &r, &s, &sec, &m, &k, &recid);
        out_int(ret); out_scalar(&r); out_scalar(&s); out_int(recid); return 1;
    }
#ifdef ENABLE_MODULE_RECOVERY
    if (!strcmp(f, "Pecdsa.sig_recover")) {
        if (g_argc != 5 || !p_scalar(1, &r) || !p_scalar(2, &s) || !p_scalar(3, &m)) return -1;
        recid = atoi(A(4)->s); if (recid < 0 || recid > 3) return -1;
        ret = secp256k1_ecdsa_sig_recover(&r, &s, &q, &m, recid);
        out_int(ret); if (ret) out_ge(&q); else out_str("-"); return 1;
    }
#endif
    if (!strncmp(f, "Papi.", 5)) {        /* public API functions translated in mode P: same calls and output as the ops of ops_basic.h */
        int rc = -1; const char *g = f + 5;
        g_args++; g_argc--;
        if (!strcmp(g, "ecdsa_verify")) rc = op_ecdsa_verify();
        else if (!strcmp(g, "ecdsa_signature_normalize")) rc = op_sig_normalize();
        else if (!strcmp(g, "ec_pubkey_create")) rc = op_pubkey_create();
        else if (!strcmp(g, "ec_seckey_verify")) rc = op_seckey_verify();
        else if (!strcmp(g, "xonly_pubkey_tweak_add")) rc = op_xonly_tweak_add();
        else { out_str("skip"); rc = 1; }
        g_args--; g_argc++;
        return rc;
    }
    if (!strncmp(f, "Pkeys.", 6)) {       /* the public key-tweak functions: same calls and output as the ops of ops_basic.h */
        int rc = -1; const char *g = f + 6;
        g_args++; g_argc--;
        if (!strcmp(g, "ec_seckey_tweak_add")) rc = op_seckey_tweak(0);
        else if (!strcmp(g, "ec_seckey_tweak_mul")) rc = op_seckey_tweak(1);
        else if (!strcmp(g, "ec_pubkey_tweak_add")) rc = op_pubkey_tweak(0);
        else if (!strcmp(g, "ec_pubkey_tweak_mul")) rc = op_pubkey_tweak(1);
        else if (!strcmp(g, "ec_seckey_negate")) rc = op_seckey_negate();
        else if (!strcmp(g, "ec_pubkey_negate")) rc = op_pubkey_negate();
        else { out_str("skip"); rc = 1; }
        g_args--; g_argc++;
        return rc;
    }
#ifdef ENABLE_MODULE_SCHNORRSIG
    if (!strcmp(f, "Pschnorr.verify")) {
        secp256k1_pubkey pk;
        if (g_argc != 4 || !A(1)->is_hex || A(1)->n != 64 || !(A(2)->is_hex || !strcmp(A(2)->s, "-")) || !tok_pubkey(3, &pk)) return -1;
        out_int(secp256k1_schnorrsig_verify(CTX, A(1)->b, A(2)->b, A(2)->n, (secp256k1_xonly_pubkey*)&pk)); out_ill(); return 1;
    }
#endif
    out_str("skip");
    return 1;
}
static int ops_kernel(const char *op) { if (!strcmp(op, "k_run")) return op_k_run(); if (!strcmp(op, "f_run")) return op_f_run(); if (!strcmp(op, "p_run")) return op_p_run(); return 0; }
