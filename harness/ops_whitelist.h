/* ops_whitelist.h: whitelist ring signatures (C16). Signature objects are exchanged in serialized form
 * (parsed / serialized with the API); public keys are point tokens, `Z` is refused. */

static int tok_pubkey_nz(int i, secp256k1_pubkey *pk) {
    if (!strcmp(A(i)->s, "Z")) return 0;
    return tok_pubkey(i, pk);
}
/* `/ online* / offline*` starting at argument `from` (which must be "/"); arrays are exactly sized */
static int wl_keys(int from, secp256k1_pubkey **on, secp256k1_pubkey **off, size_t *n) {
    int s2, i; size_t k;
    *on = NULL; *off = NULL;
    if (from >= g_argc || strcmp(A(from)->s, "/")) return 0;
    s2 = find_sep(from + 1); if (s2 < 0) return 0;
    k = (size_t)(s2 - from - 1);
    if ((size_t)(g_argc - s2 - 1) != k) return 0;
    *on = (secp256k1_pubkey*)malloc(k ? k * sizeof **on : 1); *off = (secp256k1_pubkey*)malloc(k ? k * sizeof **off : 1);
    for (i = 0; i < (int)k; i++) {
        if (!tok_pubkey_nz(from + 1 + i, &(*on)[i]) || !tok_pubkey_nz(s2 + 1 + i, &(*off)[i])) { free(*on); free(*off); *on = *off = NULL; return 0; }
    }
    *n = k;
    return 1;
}
static void out_wlsig(const secp256k1_whitelist_signature *sig) {
    unsigned char *buf = (unsigned char*)malloc(1 + 32 * 256); size_t len = 1 + 32 * 256;
    if (secp256k1_whitelist_signature_serialize(CTX, buf, &len, sig)) out_hex(buf, len); else out_str("SERFAIL");
    free(buf);
}
/* wl_sign online_sec32 summed_sec32 index sub / online* / offline* -> ret sig_ser verify i<n> */
static int op_wl_sign(void) {
    secp256k1_pubkey sub, *on, *off; size_t n; secp256k1_whitelist_signature *sig; int ret;
    if (g_argc < 6) return -1;
    NEEDHEX(0, 32); NEEDHEX(1, 32);
    if (!tok_pubkey_nz(3, &sub) || !wl_keys(4, &on, &off, &n)) return -1;
    sig = (secp256k1_whitelist_signature*)malloc(sizeof *sig); memset(sig, 0xAA, sizeof *sig);
    ret = secp256k1_whitelist_sign(CTX, sig, on, off, n, &sub, A(0)->b, A(1)->b, (size_t)strtoull(A(2)->s, NULL, 10));
    out_int(ret);
    if (ret) { int ill = g_illegal; out_wlsig(sig); out_int(secp256k1_whitelist_verify(CTX, sig, on, off, n, &sub)); g_illegal = ill; }
    else { out_str("-"); out_str("-"); }
    out_ill();
    free(sig); free(on); free(off);
    return 1;
}
/* wl_verify sig_ser sub / online* / offline* -> ret | parsefail */
static int op_wl_verify(void) {
    secp256k1_pubkey sub, *on, *off; size_t n; secp256k1_whitelist_signature *sig;
    if (g_argc < 4) return -1;
    NEEDANYHEX(0);
    if (!tok_pubkey_nz(1, &sub) || !wl_keys(2, &on, &off, &n)) return -1;
    sig = (secp256k1_whitelist_signature*)malloc(sizeof *sig); memset(sig, 0xAA, sizeof *sig);
    if (!secp256k1_whitelist_signature_parse(CTX, sig, A(0)->b, A(0)->n)) out_str("parsefail");
    else out_int(secp256k1_whitelist_verify(CTX, sig, on, off, n, &sub));
    free(sig); free(on); free(off);
    return 1;
}
/* wl_parse bytes -> ret n_keys reserialized ; n_keys `u` = field untouched */
static int op_wl_parse(void) {
    secp256k1_whitelist_signature *sig; int ret; size_t nk, untouched;
    NEED(1); NEEDANYHEX(0);
    sig = (secp256k1_whitelist_signature*)malloc(sizeof *sig); memset(sig, 0xAA, sizeof *sig);
    untouched = secp256k1_whitelist_signature_n_keys(sig);
    ret = secp256k1_whitelist_signature_parse(CTX, sig, A(0)->b, A(0)->n);
    nk = secp256k1_whitelist_signature_n_keys(sig);
    out_int(ret);
    if (nk == untouched) out_str("u"); else out_int((long long)nk);
    if (ret) out_wlsig(sig); else out_str("-");
    free(sig);
    return 1;
}
/* wl_parse_len bytes claimed_len -> ret n_keys reserialized : the parser is told `claimed_len` (any size_t, also >= 2^32) while the
   buffer holds exactly the 1 + 32*(count+1) bytes that its count byte announces - the parser reads nothing beyond them when it accepts */
static int op_wl_parse_len(void) {
    secp256k1_whitelist_signature *sig; int ret; size_t nk, untouched, claimed;
    NEED(2); NEEDANYHEX(0);
    claimed = (size_t)strtoull(A(1)->s, NULL, 10);
    if (A(0)->n < 1 || A(0)->n != 1 + 32 * ((size_t)A(0)->b[0] + 1)) return -1;
    sig = (secp256k1_whitelist_signature*)malloc(sizeof *sig); memset(sig, 0xAA, sizeof *sig);
    untouched = secp256k1_whitelist_signature_n_keys(sig);
    ret = secp256k1_whitelist_signature_parse(CTX, sig, A(0)->b, claimed);
    nk = secp256k1_whitelist_signature_n_keys(sig);
    out_int(ret);
    if (nk == untouched) out_str("u"); else out_int((long long)nk);
    if (ret) out_wlsig(sig); else out_str("-");
    free(sig);
    return 1;
}
/* wl_serialize sig_ser buflen -> ret len buffer | parsefail */
static int op_wl_serialize(void) {
    secp256k1_whitelist_signature *sig; size_t buflen, len; unsigned char *buf; int ret;
    NEED(2); NEEDANYHEX(0);
    buflen = (size_t)strtoull(A(1)->s, NULL, 10);
    if (buflen > 100000) return -1;
    sig = (secp256k1_whitelist_signature*)malloc(sizeof *sig); memset(sig, 0xAA, sizeof *sig);
    if (!secp256k1_whitelist_signature_parse(CTX, sig, A(0)->b, A(0)->n)) { out_str("parsefail"); free(sig); return 1; }
    buf = (unsigned char*)malloc(buflen ? buflen : 1); memset(buf, 0xAA, buflen ? buflen : 1);
    len = buflen;
    ret = secp256k1_whitelist_signature_serialize(CTX, buf, &len, sig);
    out_int(ret); out_int((long long)len); out_hex(buf, buflen);
    free(buf); free(sig);
    return 1;
}
static int ops_whitelist(const char *op) {
#define OP(name, call) if (!strcmp(op, name)) return call;
    OP("wl_sign", op_wl_sign()) OP("wl_verify", op_wl_verify()) OP("wl_parse", op_wl_parse()) OP("wl_parse_len", op_wl_parse_len()) OP("wl_serialize", op_wl_serialize())
#undef OP
    return 0;
}
