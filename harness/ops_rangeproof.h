/* ops_rangeproof.h: range proofs (C09 creation pipeline, C10 verify / rewind / info) and the internal
 * secp256k1_range_proveparams.  Output buffers / integers are pre-filled (0xAA bytes, -7 for ints) so that
 * "left untouched" is observable; parsed inputs live in exact-size heap buffers (arg_decode). */

#define RP_FILL64 0xAAAAAAAAAAAAAAAAULL
#define RP_FILLINT (-7)

static void out_u64(uint64_t v) { char b[32]; snprintf(b, sizeof b, "%llu", (unsigned long long)v); out_str(b); }
static uint64_t arg_u64(int i) { return (uint64_t)strtoull(A(i)->s, NULL, 10); }
static int tok_commit(int i, secp256k1_pedersen_commitment *c) {
    if (!A(i)->is_hex || A(i)->n != 33) return 0;
    return secp256k1_pedersen_commitment_parse(CTX, c, A(i)->b);
}
static void out_sizes(const size_t *l, size_t n) {
    char *b = (char*)malloc(24 * (n + 1)); size_t i, p = 0;
    b[0] = 0;
    for (i = 0; i < n; i++) p += (size_t)sprintf(b + p, "%s%lu", i ? "," : "", (unsigned long)l[i]);
    out_str(b); free(b);
}
/* message buffer token: "_" both NULL; "x" message_out NULL but outlen non-NULL; "<n>" n-byte buffer */
static void out_rewind(int ret, const unsigned char *blind, uint64_t value, const unsigned char *msg, const size_t *outlen, uint64_t minv, uint64_t maxv) {
    out_int(ret); out_hex(blind, 32); out_u64(value);
    if (msg && outlen) { out_hex(msg, *outlen); out_int((long long)*outlen); } else { out_str("_"); out_str("_"); }
    out_u64(minv); out_u64(maxv); out_ill();
}

/* rangeproof_sign min_value commit33 blind32 nonce32 exp min_bits value message extra gen buflen */
static int op_rangeproof_sign(void) {
    secp256k1_pedersen_commitment c; secp256k1_generator g;
    unsigned char *proof; size_t plen, buflen; int ret;
    NEED(11); NEEDHEX(2, 32); NEEDHEX(3, 32);
    if (!tok_commit(1, &c) || !tok_generator(9, &g)) return -1;
    if (!A(7)->is_null && !A(7)->is_hex) return -1;
    if (!A(8)->is_null && !A(8)->is_hex) return -1;
    buflen = (size_t)arg_u64(10);
    proof = (unsigned char*)malloc(buflen ? buflen : 1);
    memset(proof, 0xAA, buflen ? buflen : 1);
    plen = buflen;
    ret = secp256k1_rangeproof_sign(CTX, proof, &plen, arg_u64(0), &c, A(2)->b, A(3)->b, (int)arg_int(4), (int)arg_int(5), arg_u64(6),
                                    OPT(7), A(7)->is_null ? 0 : A(7)->n, OPT(8), A(8)->is_null ? 0 : A(8)->n, &g);
    out_int(ret); out_int((long long)plen);
    if (ret) out_hex(proof, plen); else out_str("-");
    out_ill();
    if (ret) {
        /* the whole C09 pipeline on an exact-size copy of the proof */
        unsigned char *p2 = (unsigned char*)malloc(plen ? plen : 1);
        uint64_t minv = RP_FILL64, maxv = RP_FILL64, value = RP_FILL64; int e = RP_FILLINT, m = RP_FILLINT, r2;
        unsigned char blind[32]; unsigned char *msg = (unsigned char*)malloc(4096); size_t outlen = 4096;
        memcpy(p2, proof, plen);
        r2 = secp256k1_rangeproof_verify(CTX, &minv, &maxv, &c, p2, plen, OPT(8), A(8)->is_null ? 0 : A(8)->n, &g);
        out_str("|"); out_int(r2); out_u64(minv); out_u64(maxv);
        minv = maxv = RP_FILL64;
        r2 = secp256k1_rangeproof_info(CTX, &e, &m, &minv, &maxv, p2, plen);
        out_str("|"); out_int(r2); out_int(e); out_int(m); out_u64(minv); out_u64(maxv);
        minv = maxv = RP_FILL64; memset(blind, 0xAA, 32); memset(msg, 0xAA, 4096);
        g_illegal = 0;
        r2 = secp256k1_rangeproof_rewind(CTX, blind, &value, msg, &outlen, A(3)->b, &minv, &maxv, &c, p2, plen, OPT(8), A(8)->is_null ? 0 : A(8)->n, &g);
        out_str("|"); out_rewind(r2, blind, value, msg, &outlen, minv, maxv);
        free(p2); free(msg);
    }
    free(proof);
    return 1;
}
/* rangeproof_verify commit33 proof extra gen */
static int op_rangeproof_verify(void) {
    secp256k1_pedersen_commitment c; secp256k1_generator g; uint64_t minv = RP_FILL64, maxv = RP_FILL64; int ret;
    NEED(4); NEEDANYHEX(1);
    if (!tok_commit(0, &c) || !tok_generator(3, &g)) return -1;
    if (!A(2)->is_null && !A(2)->is_hex) return -1;
    ret = secp256k1_rangeproof_verify(CTX, &minv, &maxv, &c, A(1)->b, A(1)->n, OPT(2), A(2)->is_null ? 0 : A(2)->n, &g);
    out_int(ret); out_u64(minv); out_u64(maxv);
    return 1;
}
/* rangeproof_rewind commit33 proof nonce32 extra gen msgbuf */
static int op_rangeproof_rewind(void) {
    secp256k1_pedersen_commitment c; secp256k1_generator g; uint64_t minv = RP_FILL64, maxv = RP_FILL64, value = RP_FILL64; int ret;
    unsigned char blind[32]; unsigned char *msg = NULL; size_t outlen = 0, *poutlen = NULL; const char *mb;
    NEED(6); NEEDANYHEX(1); NEEDHEX(2, 32);
    if (!tok_commit(0, &c) || !tok_generator(4, &g)) return -1;
    if (!A(3)->is_null && !A(3)->is_hex) return -1;
    mb = A(5)->s;
    if (!strcmp(mb, "_")) { msg = NULL; poutlen = NULL; }
    else if (!strcmp(mb, "x")) { msg = NULL; outlen = 4096; poutlen = &outlen; }
    else {
        const char *q; for (q = mb; *q; q++) if (*q < '0' || *q > '9') return -1;
        outlen = (size_t)arg_u64(5); poutlen = &outlen;
        msg = (unsigned char*)malloc(outlen ? outlen : 1); memset(msg, 0xAA, outlen ? outlen : 1);
    }
    memset(blind, 0xAA, 32);
    ret = secp256k1_rangeproof_rewind(CTX, blind, &value, msg, poutlen, A(2)->b, &minv, &maxv, &c, A(1)->b, A(1)->n, OPT(3), A(3)->is_null ? 0 : A(3)->n, &g);
    out_rewind(ret, blind, value, msg, msg ? poutlen : NULL, minv, maxv);
    free(msg);
    return 1;
}
/* rangeproof_info proof */
static int op_rangeproof_info(void) {
    uint64_t minv = RP_FILL64, maxv = RP_FILL64; int e = RP_FILLINT, m = RP_FILLINT, ret;
    NEED(1); NEEDANYHEX(0);
    ret = secp256k1_rangeproof_info(CTX, &e, &m, &minv, &maxv, A(0)->b, A(0)->n);
    out_int(ret); out_int(e); out_int(m); out_u64(minv); out_u64(maxv);
    return 1;
}
/* rangeproof_max_size max_value min_bits */
static int op_rangeproof_max_size(void) {
    NEED(2);
    out_u64((uint64_t)secp256k1_rangeproof_max_size(CTX, arg_u64(0), (int)arg_int(1)));
    return 1;
}
/* range_proveparams min_value exp min_bits value   (caller must respect sign_impl's preconditions) */
static int op_range_proveparams(void) {
    uint64_t v = RP_FILL64, min_value, scale = RP_FILL64, value; size_t rings = 99, rsizes[32], npub = 99, secidx[32];
    int mantissa = RP_FILLINT, exp, min_bits, ret;
    NEED(4);
    min_value = arg_u64(0); exp = (int)arg_int(1); min_bits = (int)arg_int(2); value = arg_u64(3);
    if (min_bits < 0 || min_bits > 64 || exp < -1 || exp > 18 || min_value > value) return -1;
    ret = secp256k1_range_proveparams(&v, &rings, rsizes, &npub, secidx, &min_value, &mantissa, &scale, &exp, &min_bits, value);
    out_int(ret); out_int((long long)rings); out_sizes(rsizes, rings); out_int((long long)npub); out_sizes(secidx, rings);
    out_u64(min_value); out_int(mantissa); out_u64(scale); out_int(exp); out_int(min_bits); out_u64(v);
    return 1;
}
static int ops_rangeproof(const char *op) {
#define OP(name, call) if (!strcmp(op, name)) return call;
    OP("rangeproof_sign", op_rangeproof_sign()) OP("rangeproof_verify", op_rangeproof_verify())
    OP("rangeproof_rewind", op_rangeproof_rewind()) OP("rangeproof_info", op_rangeproof_info())
    OP("rangeproof_max_size", op_rangeproof_max_size()) OP("range_proveparams", op_range_proveparams())
#undef OP
    return 0;
}
